// Child module of libwild::symbol_db: a SymbolDb in nondeterministic storage with the fields the
// functions under contract read initialised (private fields are reachable from here).
use super::*;

/// symbol_definitions = `defs`; no export list.  Everything else is arbitrary.
pub(crate) fn partial_symbol_db_for_export(defs: Vec<SymbolId>) -> &'static SymbolDb<'static, crate::elf::Elf> {
    let storage: &'static mut core::mem::MaybeUninit<SymbolDb<'static, crate::elf::Elf>> =
        Box::leak(Box::new(core::mem::MaybeUninit::uninit()));
    unsafe {
        core::ptr::addr_of_mut!((*storage.as_mut_ptr()).symbol_definitions).write(defs);
        core::ptr::addr_of_mut!((*storage.as_mut_ptr()).export_list).write(None);
        &*storage.as_ptr()
    }
}
