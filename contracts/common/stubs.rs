// Shared trusted stubs for Kani harnesses (listed as assumptions in every evidence file that uses
// them).  Message text and backtrace contents are not part of any property.
#[allow(dead_code)]
pub(crate) fn verif_format_stub(_args: core::fmt::Arguments<'_>) -> String {
    String::new()
}

#[allow(dead_code)]
pub(crate) fn verif_backtrace_stub() -> std::backtrace::Backtrace {
    std::backtrace::Backtrace::disabled()
}

#[allow(dead_code)]
pub(crate) fn verif_cpuid_stub(_leaf: u32, _sub: u32) -> core::arch::x86_64::CpuidResult {
    core::arch::x86_64::CpuidResult { eax: 0, ebx: 0, ecx: 0, edx: 0 }
}

#[allow(dead_code)]
pub(crate) fn verif_empty_string() -> String {
    String::new()
}

// ---- tracing disabled: "no subscriber is interested in any callsite" ----------------------------
// The event/span macros statically reach tracing's dispatcher and, through `dyn Subscriber`, the
// tracing-subscriber registry and hashbrown, which crashes the Kani 0.68 compiler
// (intrinsics.rs:243).  These stubs are what tracing itself answers when no subscriber is
// installed or every subscriber says `Interest::never()`.
#[allow(dead_code)]
pub(crate) fn verif_tracing_interest_never(_c: &tracing::callsite::DefaultCallsite) -> tracing::subscriber::Interest {
    tracing::subscriber::Interest::never()
}

#[allow(dead_code)]
pub(crate) fn verif_tracing_not_enabled(_m: &'static tracing::Metadata<'static>, _i: tracing::subscriber::Interest) -> bool {
    false
}

#[allow(dead_code)]
pub(crate) fn verif_tracing_event_dispatch_noop<'a>(_m: &'static tracing::Metadata<'static>, _f: &'a tracing::field::ValueSet<'_>)
where
    'a: 'a,
{
}

#[allow(dead_code)]
pub(crate) fn verif_tracing_span_none(_m: &'static tracing::Metadata<'static>, _v: &tracing::field::ValueSet<'_>) -> tracing::Span {
    tracing::Span::none()
}
