// Shared trusted stubs for Kani harnesses (listed as assumptions in every evidence file that uses
// them).  Message text and backtrace contents are not part of any property.
#[allow(dead_code)]
pub(crate) fn verif_format_stub(_args: core::fmt::Arguments<'_>) -> String {
    String::new()
}

#[allow(dead_code)]
pub(crate) fn verif_backtrace_stub() -> std::backtrace::Backtrace {
    std::backtrace::Backtrace::disabled()
}

#[allow(dead_code)]
pub(crate) fn verif_cpuid_stub(_leaf: u32, _sub: u32) -> core::arch::x86_64::CpuidResult {
    core::arch::x86_64::CpuidResult { eax: 0, ebx: 0, ecx: 0, edx: 0 }
}

#[allow(dead_code)]
pub(crate) fn verif_empty_string() -> String {
    String::new()
}

// memchr::memchr's contract (first index of the needle, None if absent), as a plain loop: the
// real crate's SSE2 path loops over raw pointers that CBMC cannot bound.
#[allow(dead_code)]
pub(crate) fn verif_memchr_stub(needle: u8, haystack: &[u8]) -> Option<usize> {
    let mut i = 0;
    while i < haystack.len() {
        if haystack[i] == needle {
            return Some(i);
        }
        i += 1;
    }
    None
}

#[allow(dead_code)]
pub(crate) fn verif_memchr2_stub(n1: u8, n2: u8, haystack: &[u8]) -> Option<usize> {
    let mut i = 0;
    while i < haystack.len() {
        if haystack[i] == n1 || haystack[i] == n2 {
            return Some(i);
        }
        i += 1;
    }
    None
}

#[allow(dead_code)]
pub(crate) fn verif_memchr3_stub(n1: u8, n2: u8, n3: u8, haystack: &[u8]) -> Option<usize> {
    let mut i = 0;
    while i < haystack.len() {
        if haystack[i] == n1 || haystack[i] == n2 || haystack[i] == n3 {
            return Some(i);
        }
        i += 1;
    }
    None
}

// core::str::from_utf8's contract for ASCII input (every byte < 0x80 is valid UTF-8 and the str
// has the same bytes); fails the obligation - closed - if it is ever handed anything else.  The
// real validator's word-at-a-time fast path branches on pointer alignment, which costs CBMC
// ~13 min per call site (measured).
#[allow(dead_code)]
pub(crate) fn verif_from_utf8_ascii_stub(v: &[u8]) -> Result<&str, core::str::Utf8Error> {
    let mut i = 0;
    while i < v.len() {
        assert!(v[i] < 0x80, "from_utf8 contract stub: non-ASCII input is outside its contract");
        i += 1;
    }
    Ok(unsafe { core::str::from_utf8_unchecked(v) })
}
