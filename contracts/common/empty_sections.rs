// An OutputSections with no sections (its map fields are private to output_section_id).  Pure
// expressions never consult it; building the real built-in table would force a 130-iteration
// unwinding on every harness.
pub(crate) fn empty_sections() -> super::OutputSections<'static, crate::elf::Elf> {
    super::OutputSections {
        base_address: 0,
        section_infos: crate::output_section_map::OutputSectionMap::from_values(Vec::new()),
        output_section_indexes: Vec::new(),
        custom_by_name: Default::default(),
        init_fini_by_priority: Default::default(),
    }
}
