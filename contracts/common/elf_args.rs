// Child module of libwild::args::elf: an ElfArgs in nondeterministic storage with the fields the
// functions under contract read initialised (private fields are reachable from here).
pub(crate) fn partial_args(relr: bool, allow_multiple_definitions: bool) -> &'static super::ElfArgs {
    let storage: &'static mut core::mem::MaybeUninit<super::ElfArgs> = Box::leak(Box::new(core::mem::MaybeUninit::uninit()));
    unsafe {
        core::ptr::addr_of_mut!((*storage.as_mut_ptr()).z_pack_relative_relocs).write(relr);
        core::ptr::addr_of_mut!((*storage.as_mut_ptr()).pack_dyn_relocs).write(super::PackDynRelocs::None);
        core::ptr::addr_of_mut!((*storage.as_mut_ptr()).allow_multiple_definitions).write(allow_multiple_definitions);
        &*storage.as_ptr()
    }
}

pub(crate) fn partial_args_hash_style(style: super::HashStyle) -> &'static super::ElfArgs {
    let storage: &'static mut core::mem::MaybeUninit<super::ElfArgs> = Box::leak(Box::new(core::mem::MaybeUninit::uninit()));
    unsafe {
        core::ptr::addr_of_mut!((*storage.as_mut_ptr()).hash_style).write(style);
        &*storage.as_ptr()
    }
}
