// ---- tracing disabled: "no subscriber is interested in any callsite" ----------------------------
// The event/span macros statically reach tracing's dispatcher and, through `dyn Subscriber`, the
// tracing-subscriber registry and hashbrown, which crashes the Kani 0.68 compiler
// (intrinsics.rs:243).  These stubs are what tracing itself answers when no subscriber is
// installed or every subscriber says `Interest::never()`.
#[allow(dead_code)]
pub(crate) fn verif_tracing_interest_never(_c: &tracing::callsite::DefaultCallsite) -> tracing::subscriber::Interest {
    tracing::subscriber::Interest::never()
}

#[allow(dead_code)]
pub(crate) fn verif_tracing_not_enabled(_m: &'static tracing::Metadata<'static>, _i: tracing::subscriber::Interest) -> bool {
    false
}

#[allow(dead_code)]
pub(crate) fn verif_tracing_event_dispatch_noop<'a>(_m: &'static tracing::Metadata<'static>, _f: &'a tracing::field::ValueSet<'_>)
where
    'a: 'a,
{
}

#[allow(dead_code)]
pub(crate) fn verif_tracing_span_none(_m: &'static tracing::Metadata<'static>, _v: &tracing::field::ValueSet<'_>) -> tracing::Span {
    tracing::Span::none()
}

// perfetto_recorder::record_event is only called when recording is enabled (a cargo feature that
// is off, plus a runtime switch); its thread-local event buffer statically reaches code the Kani
// 0.68 compiler cannot translate (same crash).  "Recording disabled" = no-op.
#[allow(dead_code)]
pub(crate) fn verif_perfetto_record_noop(_e: perfetto_recorder::Event) {}
