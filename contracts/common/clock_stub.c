/* timing_phase!/verbose_timing_phase! reach clock_gettime; any time is fine. */
struct verif_timespec { long tv_sec; long tv_nsec; };
int clock_gettime(int clk, struct verif_timespec *ts) { (void)clk; ts->tv_sec = 0; ts->tv_nsec = 0; return 0; }
