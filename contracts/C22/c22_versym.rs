// C22: symbol-version indexes of a shared library -- use side.
//
// Child module of libwild::elf_writer.  copy_symbol_version indexes `version_mapping` with an
// index read from the INPUT library's .gnu.version.  Precondition (established for every symbol
// that reaches the writer by DynamicLayoutStateExt::mark_version_as_needed, see
// c22_versions.rs): index <= VER_NDX_GLOBAL or index - 1 < version_mapping.len().
// Under it: no panic for any .gnu.version contents, symbol index (in or out of range), mapping
// and output room; the version written is the input's for local/global, the mapped one
// otherwise, VER_NDX_GLOBAL when the library has no entry for the symbol.
use super::*;

#[path = "__verif_stubs.rs"]
mod stubs;

const MAXV: usize = 4;

#[kani::proof]
#[kani::unwind(8)]
#[kani::stub(alloc::fmt::format, stubs::verif_format_stub)]
#[kani::stub(std::backtrace::Backtrace::capture, stubs::verif_backtrace_stub)]
fn c22_copy_symbol_version_never_panics_for_validated_indexes() {
    let raw: [u16; 2] = kani::any();
    let versym_in = [
        object::elf::Versym(object::U16::new(LittleEndian, raw[0])),
        object::elf::Versym(object::U16::new(LittleEndian, raw[1])),
    ];
    let n_in: usize = kani::any();
    kani::assume(n_in <= 2);
    let sym: usize = kani::any();
    let mapping: [u16; MAXV] = kani::any();
    let n: usize = kani::any();
    kani::assume(n <= MAXV);
    let idx = if sym < n_in { Some((raw[if sym == 0 { 0 } else { 1 }] & object::elf::VERSYM_VERSION) as usize) } else { None };
    // the validated-index precondition
    if let Some(i) = idx {
        kani::assume(i <= 1 || i - 1 < n);
    }
    let mut out_storage = [object::elf::Versym(object::U16::new(LittleEndian, 0xffff))];
    let room: bool = kani::any();
    let mut out: &mut [Versym] = if room { &mut out_storage[..] } else { &mut [] };
    let r = copy_symbol_version(&versym_in[..n_in], sym, &mapping[..n], &mut out);
    let ok = r.is_ok();
    core::mem::forget(r);
    assert!(ok == room, "fails exactly when the .gnu.version allocation is exhausted");
    if ok {
        let want = match idx {
            None => object::elf::VER_NDX_GLOBAL,
            Some(i) if i <= 1 => i as u16,
            Some(i) => mapping[i - 1],
        };
        assert!(out_storage[0].0.get(LittleEndian) == want, "wrong output version");
    }
}
