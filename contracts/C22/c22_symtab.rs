// C22: no crash on malformed input -- every query wild makes on an input symbol-table entry.
//
// Child module of libwild::elf.  Functions under contract: <SymtabEntry as platform::Symbol>::*
// (as_common, is_common, is_undefined, is_local, visibility, is_absolute, is_weak, value, size,
// has_name, is_tls, is_interposable, is_func, is_ifunc, is_hidden, is_gnu_unique, with_hidden).
// All 24 bytes of the entry are symbolic: the entry comes straight from the input file.
// Obligation: no panic (automatic arithmetic / index checks), and as_common decodes a COMMON
// symbol exactly: Some iff st_shndx == SHN_COMMON, st_value (the alignment) is a power of two that
// Alignment accepts (<= 64 KiB, C29) and st_size rounded up to it fits in 64 bits; then size is
// that rounded-up value and the part is .tbss for STT_TLS, .bss otherwise.
use super::*;
use crate::platform::Symbol as _;

#[path = "__verif_stubs.rs"]
mod stubs;

fn any_sym() -> SymtabEntry {
    let mut sym: SymtabEntry = unsafe { core::mem::zeroed() };
    sym.st_name.set(LittleEndian, kani::any());
    sym.st_info = kani::any();
    sym.st_other = kani::any();
    sym.st_shndx.set(LittleEndian, kani::any());
    sym.st_value.set(LittleEndian, kani::any());
    sym.st_size.set(LittleEndian, kani::any());
    sym
}

#[kani::proof]
#[kani::unwind(20)]
#[kani::stub(alloc::fmt::format, stubs::verif_format_stub)]
fn c22_symtab_entry_queries_never_panic_and_common_is_decoded_exactly() {
    let sym = any_sym();
    let _ = sym.is_undefined();
    let _ = sym.is_local();
    let _ = sym.visibility();
    let _ = sym.is_absolute();
    let _ = sym.is_weak();
    let _ = sym.value();
    let _ = sym.has_name();
    let _ = sym.is_interposable();
    let _ = sym.is_func();
    let _ = sym.is_ifunc();
    let _ = sym.is_hidden();
    let _ = sym.is_gnu_unique();
    let _ = sym.with_hidden(kani::any());
    let size = sym.size();
    let align = sym.st_value.get(LittleEndian);
    let shndx = sym.st_shndx.get(LittleEndian);
    assert!(size == sym.st_size.get(LittleEndian));
    let valid = shndx == object::elf::SHN_COMMON
        && align.is_power_of_two()
        && align <= 0x10000
        && size <= u64::MAX - (align - 1);
    let c = sym.as_common();
    assert!(sym.is_common() == valid, "is_common differs from 'SHN_COMMON with a usable alignment and size'");
    match c {
        Some(cs) => {
            assert!(valid, "as_common accepted an entry that is not a well-formed COMMON symbol");
            assert!(cs.size >= size && cs.size - size < align && cs.size & (align - 1) == 0,
                "common symbol size is not st_size rounded up to its alignment");
            let sec = if sym.is_tls() { output_section_id::TBSS } else { output_section_id::BSS };
            let a = Alignment { exponent: align.trailing_zeros() as u8 };
            assert!(cs.part_id == sec.part_id_with_alignment(a), "common symbol placed in the wrong part");
        }
        None => assert!(!valid, "a well-formed COMMON symbol was not recognised"),
    }
}

#[kani::proof]
#[kani::unwind(20)]
#[kani::stub(alloc::fmt::format, stubs::verif_format_stub)]
fn c22_canary_symtab_common_reachable() {
    let sym = any_sym();
    assert!(sym.as_common().is_none(), "canary: a COMMON symbol must be reachable");
}
