// C22: malformed input produces a diagnostic, never a crash -- x86-64 relaxation kernel.
//
// Child module of libwild::elf_x86_64.  Contract ("never panics" is the whole postcondition):
//   for EVERY section content, EVERY relocation offset (inside or outside the section), EVERY
//   relocation type number, symbol flags, output kind and section flags,
//   <ElfX86_64 as Arch>::new_relaxation returns (Some or None) without panicking, and when it
//   returns Some(r), r.apply(..) on that same section returns without panicking and does not
//   move an offset that was inside the section to outside it.
// These are the functions that index raw section bytes with an offset taken from an input
// relocation record; Kani's automatic checks (index/slice bounds, arithmetic overflow as in the
// debug profile, unwrap) are the obligations.
use super::*;
use crate::args::RelocationModel;
use crate::platform::Arch as _;
use crate::platform::Relaxation as _;

const W: usize = 24;

fn any_output_kind() -> OutputKind {
    let k: u8 = kani::any();
    kani::assume(k < 6);
    match k {
        0 => OutputKind::StaticExecutable(RelocationModel::NonRelocatable),
        1 => OutputKind::StaticExecutable(RelocationModel::Relocatable),
        2 => OutputKind::DynamicExecutable(RelocationModel::NonRelocatable),
        3 => OutputKind::DynamicExecutable(RelocationModel::Relocatable),
        4 => OutputKind::SharedObject,
        _ => OutputKind::Relocatable,
    }
}

fn run(r_type: u32) {
    let mut bytes: [u8; W] = kani::any();
    let len: usize = kani::any();
    kani::assume(len <= W);
    // r_offset is input data: any 64-bit number, not necessarily inside the section
    let offset: u64 = kani::any();
    let flags = ValueFlags::from_bits_retain(kani::any());
    let sflags = SectionFlags::from_u32(kani::any());
    let okind = any_output_kind();
    let r = ElfX86_64::new_relaxation(r_type, &bytes[..len], offset, flags, okind, sflags, kani::any(), None);
    if let Some(r) = r {
        let mut off = offset;
        let mut addend: i64 = kani::any();
        r.apply(&mut bytes[..len], &mut off, &mut addend);
        let _ = r.next_modifier();
        let _ = r.rel_info();
        // a relaxation never moves a field that started inside the section to outside it (the
        // caller then takes `out.get_mut(offset..)`, which reports offsets outside the section)
        if offset <= len as u64 {
            assert!(off <= len as u64, "relaxation moved the relocation offset outside the section");
        }
    }
}

#[kani::proof]
#[kani::unwind(8)]
fn c22_x86_relaxation_never_panics_for_any_section_bytes_and_offset() {
    // every type number wild's x86-64 table accepts (the caller bails out on the others before
    // reaching new_relaxation: `A::relocation_from_raw(r_type)?`)
    let r_type: u32 = kani::any();
    kani::assume(linker_utils::x86_64::relocation_from_raw(r_type).is_some());
    run(r_type);
}

#[kani::proof]
#[kani::unwind(8)]
fn c22_canary_relaxation_reachable() {
    let mut bytes: [u8; W] = kani::any();
    let flags = ValueFlags::from_bits_retain(kani::any());
    let r = ElfX86_64::new_relaxation(object::elf::R_X86_64_REX_GOTPCRELX, &bytes[..], 8, flags,
        OutputKind::StaticExecutable(RelocationModel::NonRelocatable), shf::EXECINSTR, true, None);
    assert!(r.is_none(), "canary: a relaxation must be reachable");
}
