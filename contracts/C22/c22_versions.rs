// C22: symbol-version indexes of a shared library -- validation side.
//
// Child module of libwild::elf.  <.gnu.version> entries of an input shared object are indexes
// into its version definitions; the writer later uses them to index `version_mapping`
// (elf_writer::copy_symbol_version) WITHOUT a bounds check, relying on this function having
// rejected every index the library does not define.  The two functions carry the two halves of
// that contract (modular: caller-side precondition there, postcondition here):
//   DynamicLayoutStateExt::mark_version_as_needed(v):
//     Ok  ==> index <= VER_NDX_GLOBAL, or index - 1 < symbol_versions_needed.len() and that
//             entry is now true and no other entry changed;
//     Err ==> index > VER_NDX_GLOBAL and index - 1 >= symbol_versions_needed.len().
// Glue that is NOT proved here: version_mapping.len() == symbol_versions_needed.len()
// (compute_version_mapping builds it with `vec![..; symbol_versions_needed.len()]`) and that every
// symbol whose version is copied went through mark_version_as_needed first.
use super::*;

#[path = "__verif_stubs.rs"]
mod stubs;

const MAXV: usize = 4;

#[kani::proof]
#[kani::unwind(8)]
#[kani::stub(alloc::fmt::format, stubs::verif_format_stub)]
#[kani::stub(std::backtrace::Backtrace::capture, stubs::verif_backtrace_stub)]
fn c22_mark_version_as_needed_rejects_undefined_version_indexes() {
    let n: usize = kani::any();
    kani::assume(n <= MAXV);
    let before: [bool; MAXV] = kani::any();
    let mut needed = Vec::from(before);
    needed.truncate(n);
    // nondeterministic storage with the one field the function touches initialised
    // (Default::default() would seed a hash map from the clock)
    let mut storage = core::mem::MaybeUninit::<DynamicLayoutStateExt<'static>>::uninit();
    unsafe { core::ptr::addr_of_mut!((*storage.as_mut_ptr()).symbol_versions_needed).write(needed) };
    let st: &mut DynamicLayoutStateExt<'static> = unsafe { &mut *storage.as_mut_ptr() };
    let raw: u16 = kani::any();
    let r = st.mark_version_as_needed(object::elf::Versym(object::U16::new(LittleEndian, raw)));
    let idx = (raw & object::elf::VERSYM_VERSION) as usize;
    let ok = r.is_ok();
    core::mem::forget(r);
    if ok {
        assert!(idx <= 1 || idx - 1 < n, "a version index the library does not define was accepted (the writer indexes version_mapping with it)");
    } else {
        assert!(idx > 1 && idx - 1 >= n, "a defined version index was rejected");
    }
    assert!(st.symbol_versions_needed.len() == n);
    let k: usize = kani::any();
    kani::assume(k < n);
    if ok && idx > 1 && k == idx - 1 {
        assert!(st.symbol_versions_needed[k], "the version was not marked as needed");
    } else {
        assert!(st.symbol_versions_needed[k] == before[k], "an unrelated version entry changed");
    }
}

#[kani::proof]
#[kani::unwind(8)]
#[kani::stub(alloc::fmt::format, stubs::verif_format_stub)]
#[kani::stub(std::backtrace::Backtrace::capture, stubs::verif_backtrace_stub)]
fn c22_canary_mark_version_reachable() {
    let mut storage = core::mem::MaybeUninit::<DynamicLayoutStateExt<'static>>::uninit();
    unsafe { core::ptr::addr_of_mut!((*storage.as_mut_ptr()).symbol_versions_needed).write(vec![false, false]) };
    let st: &mut DynamicLayoutStateExt<'static> = unsafe { &mut *storage.as_mut_ptr() };
    let raw: u16 = kani::any();
    let r = st.mark_version_as_needed(object::elf::Versym(object::U16::new(LittleEndian, raw)));
    core::mem::forget(r);
    let marked = st.symbol_versions_needed[1];
    assert!(!marked, "canary: marking a version must be reachable");
}
