// C22: malformed input produces a diagnostic, never a crash -- archive kernel.
//
// Child module of libwild::archive.  Contract: for EVERY byte string handed to
// ArchiveIterator::from_archive_bytes, construction and iteration return Ok/Err items and never
// panic.  BOUNDED: archives of at most MAXLEN bytes (global header + one member header + a few
// data bytes), every byte symbolic; the `object` crate's archive parser is executed, not stubbed.
use super::*;

#[path = "__verif_stubs.rs"]
mod stubs;

const MAXLEN: usize = 72;

fn walk(data: &[u8]) {
    match ArchiveIterator::from_archive_bytes(data) {
        Ok(it) => {
            let mut n = 0;
            for e in it {
                match e {
                    Ok(ArchiveEntry::Regular(c)) => {
                        assert!(c.data_offset <= data.len());
                        assert!(c.entry_data.len() <= data.len());
                    }
                    Ok(ArchiveEntry::Thin(_)) => {}
                    Err(err) => core::mem::forget(err),
                }
                n += 1;
                if n >= 2 {
                    break;
                }
            }
        }
        Err(err) => core::mem::forget(err),
    }
}

fn member_header_template() -> [u8; MAXLEN] {
    // "!<arch>\n" + 60-byte member header: name[16] date[12] uid[6] gid[6] mode[8] size[10] "`\n"
    let mut buf = [b' '; MAXLEN];
    buf[..8].copy_from_slice(b"!<arch>\n");
    buf[8..12].copy_from_slice(b"a.o/");
    buf[8 + 58] = b'`';
    buf[8 + 59] = b'\n';
    buf
}

#[kani::proof]
#[kani::unwind(20)]
#[kani::stub(alloc::fmt::format, stubs::verif_format_stub)]
#[kani::stub(std::backtrace::Backtrace::capture, stubs::verif_backtrace_stub)]
#[kani::stub(std::arch::x86_64::__cpuid_count, stubs::verif_cpuid_stub)]
fn c22_archive_iteration_never_panics_for_any_bytes() {
    let mut buf = member_header_template();
    // the member's decimal size field (10 bytes), its name's first bytes, the header terminator
    // and the data bytes are symbolic; so is the point at which the file is truncated
    let size_field: [u8; 10] = kani::any();
    buf[8 + 48..8 + 58].copy_from_slice(&size_field);
    let name: [u8; 4] = kani::any();
    buf[8..12].copy_from_slice(&name);
    let term: [u8; 2] = kani::any();
    buf[8 + 58] = term[0];
    buf[8 + 59] = term[1];
    let data: [u8; 4] = kani::any();
    buf[68..72].copy_from_slice(&data);
    let len: usize = kani::any();
    kani::assume(len >= 8 && len <= MAXLEN);
    walk(&buf[..len]);
}

#[kani::proof]
#[kani::unwind(20)]
#[kani::stub(alloc::fmt::format, stubs::verif_format_stub)]
#[kani::stub(std::backtrace::Backtrace::capture, stubs::verif_backtrace_stub)]
#[kani::stub(std::arch::x86_64::__cpuid_count, stubs::verif_cpuid_stub)]
fn c22_canary_archive_member_reachable() {
    let mut buf = member_header_template();
    buf[8 + 48] = b'4'; // size field
    let mut seen = false;
    if let Ok(it) = ArchiveIterator::from_archive_bytes(&buf[..]) {
        for e in it {
            if let Ok(ArchiveEntry::Regular(c)) = e {
                seen = c.entry_data.len() == 4;
            }
            break;
        }
    }
    assert!(!seen, "canary: a regular member must be reachable");
}
