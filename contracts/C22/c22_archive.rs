// C22: malformed input produces a diagnostic, never a crash -- archive kernel.
//
// Child module of libwild::archive.  Contract: for EVERY byte string handed to
// ArchiveIterator::from_archive_bytes, construction and iteration return Ok/Err items and never
// panic.  BOUNDED: archives of at most MAXLEN bytes (global header + one member header + a few
// data bytes), every byte symbolic; the `object` crate's archive parser is executed, not stubbed.
use super::*;

#[path = "__verif_stubs.rs"]
mod stubs;

const MAXLEN: usize = 72;

fn walk(data: &[u8]) {
    match ArchiveIterator::from_archive_bytes(data) {
        Ok(it) => {
            let mut n = 0;
            for e in it {
                match e {
                    Ok(ArchiveEntry::Regular(c)) => {
                        assert!(c.data_offset <= data.len());
                        assert!(c.entry_data.len() <= data.len());
                    }
                    Ok(ArchiveEntry::Thin(_)) => {}
                    Err(err) => core::mem::forget(err),
                }
                n += 1;
                if n >= 2 {
                    break;
                }
            }
        }
        Err(err) => core::mem::forget(err),
    }
}

#[kani::proof]
#[kani::unwind(20)]
#[kani::stub(alloc::fmt::format, stubs::verif_format_stub)]
#[kani::stub(std::backtrace::Backtrace::capture, stubs::verif_backtrace_stub)]
#[kani::stub(std::arch::x86_64::__cpuid_count, stubs::verif_cpuid_stub)]
fn c22_archive_iteration_never_panics_for_any_bytes() {
    let buf: [u8; MAXLEN] = kani::any();
    let len: usize = kani::any();
    kani::assume(len <= MAXLEN);
    // steer towards the interesting region: the magic is what the file-type sniffing already saw
    kani::assume(buf[0] == b'!' && buf[1] == b'<' && buf[2] == b'a' && buf[3] == b'r' && buf[4] == b'c' && buf[5] == b'h' && buf[6] == b'>' && buf[7] == b'\n');
    walk(&buf[..len]);
}

#[kani::proof]
#[kani::unwind(20)]
#[kani::stub(alloc::fmt::format, stubs::verif_format_stub)]
#[kani::stub(std::backtrace::Backtrace::capture, stubs::verif_backtrace_stub)]
#[kani::stub(std::arch::x86_64::__cpuid_count, stubs::verif_cpuid_stub)]
fn c22_canary_archive_member_reachable() {
    let mut buf = [b' '; MAXLEN];
    buf[..8].copy_from_slice(b"!<arch>\n");
    buf[8..12].copy_from_slice(b"a.o/");
    buf[56] = b'4'; // size field (bytes 48..58 of the header at 8)
    buf[66] = b'`';
    buf[67] = b'\n';
    let mut seen = false;
    if let Ok(it) = ArchiveIterator::from_archive_bytes(&buf[..]) {
        for e in it {
            if let Ok(ArchiveEntry::Regular(c)) = e {
                seen = c.entry_data.len() == 4;
            }
            break;
        }
    }
    assert!(!seen, "canary: a regular member must be reachable");
}
