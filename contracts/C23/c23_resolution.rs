// C23: size accounting never fails -- the per-symbol resolution kernel.
//
// Child module of libwild::elf_writer.  Three real functions account for the GOT / PLT / dynamic
// relocation entries of one symbol, in three different passes:
//   (1) <Elf as Platform>::allocate_resolution (via layout::compute_allocations): how many BYTES
//       of .got, .plt.got, .rela.plt, .rela.dyn (general / relative), .relr.dyn layout reserves;
//   (2) <Elf as Platform>::create_resolution: how far the .got / .plt.got ADDRESS cursors advance
//       and which slot addresses the Resolution records;
//   (3) TableWriter::process_resolution: how many ENTRIES the writer takes from each table.
// "Insufficient allocation" / "excessive allocation" errors (the internal errors C23 speaks of)
// are exactly disagreements between them.  Contract, for EVERY ValueFlags value that satisfies the
// stated flag invariants, every output kind, RELR on/off, symbolic addresses:
//   (a) create_resolution advances the GOT and PLT cursors by exactly allocate_resolution's sizes;
//   (b) process_resolution on that Resolution, given tables of exactly allocate_resolution's
//       sizes, returns Ok and leaves every table empty (no insufficient / excessive allocation);
//   (c) [C01] for TLS symbols the slot each dynamic relocation is attached to is the slot the
//       accessors Resolution::{got_address, tlsgd_got_address, tls_descriptor_got_address} hand to
//       relocation processing (R_*_TPOFF64 at got_address(), R_*_DTPMOD64 at tlsgd_got_address(),
//       R_*_TLSDESC at tls_descriptor_got_address()).
use super::*;
use crate::elf::Relr;
use crate::layout::Resolution;
use crate::layout::compute_allocations;
use crate::platform::Platform as _;
use crate::value_flags::ValueFlags;
use std::num::NonZeroU32;

#[path = "__verif_stubs.rs"]
mod stubs;
#[path = "__verif_tracing_stubs.rs"]
mod tstubs;

const MAXGOT: usize = 6;
const MAXREL: usize = 5;

fn any_kind() -> OutputKind {
    let k: u8 = kani::any();
    match k % 5 {
        0 => OutputKind::StaticExecutable(crate::args::RelocationModel::NonRelocatable),
        1 => OutputKind::StaticExecutable(crate::args::RelocationModel::Relocatable),
        2 => OutputKind::DynamicExecutable(crate::args::RelocationModel::NonRelocatable),
        3 => OutputKind::DynamicExecutable(crate::args::RelocationModel::Relocatable),
        _ => OutputKind::SharedObject,
    }
}

/// Flag combinations layout can produce (derived from resolution_flags(), process_relocation's
/// flag updates in elf.rs and symbol_db.rs's flag assignment; each line is an assumption listed
/// in the evidence).
fn flags_invariant(f: ValueFlags, kind: OutputKind) -> bool {
    let tls = f.is_tls();
    // ABSOLUTE / DYNAMIC / IFUNC classify the symbol's value and exclude one another
    let kinds = f.is_absolute() as u8 + f.is_dynamic() as u8 + f.is_ifunc() as u8;
    kinds <= 1
        // a PLT entry always comes with its GOT slot
        && (!f.needs_plt() || f.needs_got())
        // TLS variables are reached through TLS GOT slots only
        && (!tls || (!f.needs_got() && !f.needs_plt() && !f.is_ifunc() && !f.needs_ifunc_got_for_address()))
        // a TLS variable that gets GOT slots is either defined in the output (has an address) or
        // imported; undefined weak TLS symbols (ABSOLUTE) are outside this contract
        && (!tls || !f.is_absolute())
        // ifuncs that are resolved at all go through GOT + PLT; the extra address slot exists only
        // for ifuncs in non-relocatable outputs
        && (!f.is_ifunc() || (f.needs_got() && f.needs_plt()))
        && (!f.needs_ifunc_got_for_address() || (f.is_ifunc() && !kind.is_relocatable()))
        // symbols imported from shared objects exist only in outputs with a dynamic symbol table,
        // are interposable, and a static executable has neither them nor TLS descriptors
        && (!f.is_dynamic() || (kind.needs_dynsym() && f.is_interposable()))
        && (!f.needs_export_dynamic() || kind.needs_dynsym())
        && (!kind.is_static_executable() || !f.needs_got_tls_descriptor())
        // in an executable every symbol the executable defines is non-interposable unless it is
        // exported to the dynamic symbol table
        && (!kind.is_executable() || f.is_dynamic() || !f.is_interposable() || f.needs_export_dynamic())
}

fn rela_tuple(r: &Rela) -> (u64, u64, i64) {
    (r.r_offset.get(LittleEndian), r.r_info.get(LittleEndian), r.r_addend.get(LittleEndian))
}

fn harness(tls_case: bool) {
    harness_bits(tls_case, None)
}

fn harness_bits(tls_case: bool, only: Option<ValueFlags>) {
    let kind = any_kind();
    let flags = ValueFlags::from_bits_retain(kani::any());
    kani::assume(flags_invariant(flags, kind));
    kani::assume(flags.is_tls() == tls_case);
    if let Some(o) = only {
        let tls_bits = ValueFlags::GOT_TLS_OFFSET | ValueFlags::GOT_TLS_MODULE | ValueFlags::GOT_TLS_DESCRIPTOR;
        kani::assume(flags & tls_bits == o);
    }
    let relr: bool = kani::any();
    let args = crate::args::elf::__verif_elf_args::partial_args(relr, false);
    let has_dynamic_symbol = flags.is_dynamic() || (flags.needs_export_dynamic() && flags.is_interposable());
    let dynsym: u32 = kani::any();
    kani::assume(dynsym >= 1);
    let dynamic_symbol_index = if has_dynamic_symbol { NonZeroU32::new(dynsym) } else { None };

    // ---- TLS segment and symbol value
    let tls_start: u64 = kani::any();
    let tls_size: u64 = kani::any();
    kani::assume(tls_start >= 4096 && tls_start <= 1 << 40 && tls_size <= 1 << 30 && tls_start % 64 == 0);
    let raw_value: u64 = kani::any();
    if tls_case {
        kani::assume(raw_value >= tls_start && raw_value <= tls_start + tls_size);
    } else {
        kani::assume(raw_value <= 1 << 46);
    }

    // ---- (1) sizes reserved by layout
    let res_probe: Resolution<Elf> = Resolution { raw_value, dynamic_symbol_index, flags,
        format_specific: crate::elf::ResolutionExt { got_address: None, plt_address: None } };
    let sizes = compute_allocations::<Elf>(&res_probe, kind, args);
    let n_got = (*sizes.get(part_id::GOT) / elf::GOT_ENTRY_SIZE) as usize;
    let n_plt = (*sizes.get(part_id::PLT_GOT) / elf::PLT_ENTRY_SIZE) as usize;
    let n_rela_plt = (*sizes.get(part_id::RELA_PLT) / elf::RELA_ENTRY_SIZE) as usize;
    let n_general = (*sizes.get(part_id::RELA_DYN_GENERAL) / elf::RELA_ENTRY_SIZE) as usize;
    let n_relative = (*sizes.get(part_id::RELA_DYN_RELATIVE) / elf::RELA_ENTRY_SIZE) as usize;
    let n_relr = (*sizes.get(part_id::RELR_DYN) / elf::RELR_ENTRY_SIZE) as usize;
    assert!(*sizes.get(part_id::GOT) % elf::GOT_ENTRY_SIZE == 0 && *sizes.get(part_id::PLT_GOT) % elf::PLT_ENTRY_SIZE == 0);
    assert!(n_got <= MAXGOT && n_plt <= 1 && n_rela_plt <= 1 && n_general <= MAXREL && n_relative <= 2 && n_relr <= 2);

    // ---- (2) addresses handed out by layout
    let got_base: u64 = kani::any();
    let plt_base: u64 = kani::any();
    kani::assume(got_base >= 4096 && got_base <= 1 << 40 && got_base % 8 == 0);
    kani::assume(plt_base >= 4096 && plt_base <= 1 << 40 && plt_base % 16 == 0);
    // x86-64 PLT stubs address their GOT slot with a 32-bit displacement
    kani::assume(got_base.abs_diff(plt_base) < 1 << 30);
    let mut offsets: OutputSectionPartMap<u64> = OutputSectionPartMap::with_size(part_id::NUM_SINGLE_PART_SECTIONS as usize);
    *offsets.get_mut(part_id::GOT) = got_base;
    *offsets.get_mut(part_id::PLT_GOT) = plt_base;
    let res = Elf::create_resolution(flags, raw_value, dynamic_symbol_index, &mut offsets);
    assert!(*offsets.get(part_id::GOT) - got_base == *sizes.get(part_id::GOT), "GOT address cursor and GOT size accounting disagree");
    assert!(*offsets.get(part_id::PLT_GOT) - plt_base == *sizes.get(part_id::PLT_GOT), "PLT address cursor and PLT size accounting disagree");
    assert!(res.format_specific.got_address.is_some() == (n_got > 0), "a GOT address is recorded exactly when GOT space is reserved");

    // ---- (3) the writer, on tables of exactly the reserved sizes
    let mut got_arr = [0u64; MAXGOT];
    let mut plt_arr = [0u8; 16];
    let mut rela_plt_arr: [Rela; 1] = unsafe { core::mem::zeroed() };
    let mut general_arr: [Rela; MAXREL] = unsafe { core::mem::zeroed() };
    let mut relative_arr: [Rela; 2] = unsafe { core::mem::zeroed() };
    let mut relr_arr: [Relr; 2] = unsafe { core::mem::zeroed() };
    let sections_storage = core::mem::MaybeUninit::<OutputSections<'static, Elf>>::uninit();
    let sections: &OutputSections<'static, Elf> = unsafe { &*sections_storage.as_ptr() };
    let mut layout_storage = core::mem::MaybeUninit::<ElfLayout<'static>>::uninit();
    unsafe {
        core::ptr::addr_of_mut!((*layout_storage.as_mut_ptr()).symbol_db.args).write(args);
        core::ptr::addr_of_mut!((*layout_storage.as_mut_ptr()).segment_layouts.tls_layout).write(Some(crate::layout::OutputRecordLayout {
            file_size: tls_size as usize, mem_size: tls_size, alignment: crate::alignment::Alignment { exponent: 6 },
            file_offset: 0, mem_offset: tls_start }));
    }
    let ok;
    let left;
    {
        let mut tw = TableWriter {
            output_kind: kind,
            got: &mut got_arr[..n_got],
            plt_got: &mut plt_arr[..n_plt * 16],
            rela_plt: &mut rela_plt_arr[..n_rela_plt],
            tls: tls_start..tls_start + tls_size,
            rela_dyn_relative: &mut relative_arr[..n_relative],
            rela_dyn_general: &mut general_arr[..n_general],
            // TableWriter::new: the RELR table exists only when enabled and non-empty
            relr_dyn: if relr && n_relr > 0 { Some(&mut relr_arr[..n_relr]) } else { None },
            dynsym_writer: SymbolTableWriter { local_entries: &mut [], global_entries: &mut [], output_sections: sections,
                strtab_writer: StrTabWriter { next_offset: 0, out: &mut [] }, is_dynamic: true,
                symtab_shndx_local_entries: None, symtab_shndx_global_entries: None },
            debug_symbol_writer: SymbolTableWriter { local_entries: &mut [], global_entries: &mut [], output_sections: sections,
                strtab_writer: StrTabWriter { next_offset: 0, out: &mut [] }, is_dynamic: false,
                symtab_shndx_local_entries: None, symtab_shndx_global_entries: None },
            eh_frame_start_address: 0, eh_frame: &mut [], eh_frame_hdr: &mut [],
            dynamic: DynamicEntriesWriter { out: &mut [] },
            version_writer: VersionWriter { version_d: &mut [], version_r: &mut [], versym: None },
        };
        let r = tw.process_resolution::<crate::elf_x86_64::ElfX86_64>(Some(unsafe { &*layout_storage.as_ptr() }), args, &res);
        ok = r.is_ok();
        core::mem::forget(r);
        left = (tw.got.len(), tw.plt_got.len(), tw.rela_plt.len(), tw.rela_dyn_general.len(), tw.rela_dyn_relative.len(),
            tw.relr_dyn.as_ref().map_or(0, |s| s.len()));
        core::mem::forget(tw);
    }
    assert!(ok, "writing a resolution failed although every table has exactly the space layout reserved (insufficient allocation)");
    assert!(left.0 == 0, "excessive .got allocation");
    assert!(left.1 == 0, "excessive .plt.got allocation");
    assert!(left.2 == 0, "excessive .rela.plt allocation");
    assert!(left.3 == 0, "excessive .rela.dyn (general) allocation");
    assert!(left.4 == 0, "excessive .rela.dyn (relative) allocation");
    assert!(left.5 == 0, "excessive .relr.dyn allocation");

    // ---- (d) [C01/C09] what the program finds in the symbol's GOT slot at run time.  `G` in the
    // psABI formulas is the address of a slot that holds the symbol's run-time address: for a
    // symbol imported/exported dynamically the loader fills it (GLOB_DAT naming the symbol); for
    // a link-time address in a position-independent output exactly one relative relocation makes
    // it address + load base; otherwise the linker stores the final value.
    if !tls_case && flags.needs_got() && !flags.is_ifunc() {
        let slot_addr = got_base; // create_resolution hands out the cursor position
        assert!(res.got_address().is_ok_and(|a| a == slot_addr), "GOT slot address differs from the GOT cursor");
        let slot = got_arr[0];
        let base: u64 = kani::any();
        if has_dynamic_symbol {
            let (off, info, addend) = rela_tuple(&general_arr[0]);
            assert!(n_general >= 1 && off == slot_addr, "GLOB_DAT is not attached to the symbol's GOT slot");
            assert!((info & 0xffff_ffff) as u32 == object::elf::R_X86_64_GLOB_DAT && (info >> 32) as u32 == dynsym && addend == 0, "GOT slot of a dynamic symbol is not filled by GLOB_DAT of that symbol");
            assert!(slot == 0);
        } else if flags.is_address() && kind.is_relocatable() {
            if relr && n_relr > 0 {
                let entry = relr_arr[0].0.get(LittleEndian);
                assert!(entry == slot_addr && entry & 1 == 0, "RELR entry does not decode to the GOT slot");
                assert!(slot.wrapping_add(base) == res.raw_value.wrapping_add(base), "GOT slot does not hold address + base after loading (RELR)");
            } else {
                let (off, info, addend) = rela_tuple(&relative_arr[0]);
                assert!(n_relative >= 1 && off == slot_addr && info == object::elf::R_X86_64_RELATIVE as u64, "relative relocation is not attached to the GOT slot");
                assert!(base.wrapping_add(addend as u64) == res.raw_value.wrapping_add(base), "GOT slot does not hold address + base after loading (RELA)");
            }
        } else {
            assert!(slot == res.raw_value, "GOT slot does not hold the symbol's value");
        }
    }

    // ---- (c) TLS: the slot each dynamic relocation describes is the slot the accessors return
    if tls_case {
        let i: usize = kani::any();
        kani::assume(i < n_general);
        let (off, info, _addend) = rela_tuple(&general_arr[i]);
        let r_type = (info & 0xffff_ffff) as u32;
        if r_type == object::elf::R_X86_64_TPOFF64 {
            let a = res.got_address();
            assert!(a.is_ok_and(|a| a == off), "TPOFF64 is attached to a different slot than got_address()");
        } else if r_type == object::elf::R_X86_64_DTPMOD64 {
            let a = res.tlsgd_got_address();
            assert!(a.is_ok_and(|a| a == off), "DTPMOD64 is attached to a different slot than tlsgd_got_address()");
        } else if r_type == object::elf::R_X86_64_DTPOFF64 {
            let a = res.tlsgd_got_address();
            assert!(a.is_ok_and(|a| a + 8 == off), "DTPOFF64 is not attached to the second word of the GD pair");
        } else if r_type == object::elf::R_X86_64_TLSDESC {
            let a = res.tls_descriptor_got_address();
            assert!(a.is_ok_and(|a| a == off), "TLSDESC is attached to a different slot than tls_descriptor_got_address()");
        } else {
            assert!(false, "unexpected dynamic relocation type for a TLS symbol");
        }
        // the slots lie inside the symbol's own GOT reservation
        assert!(off >= got_base && off + 8 <= got_base + *sizes.get(part_id::GOT), "dynamic relocation outside the symbol's GOT slots");
    }
}

macro_rules! c23_harness {
    ($name:ident, $tls:expr) => {
        #[kani::proof]
        #[kani::unwind(42)]
        #[kani::stub(alloc::fmt::format, stubs::verif_format_stub)]
        #[kani::stub(crate::file_writer::verify_allocations_message, stubs::verif_empty_string)]
        #[kani::stub(tracing::callsite::DefaultCallsite::interest, tstubs::verif_tracing_interest_never)]
        #[kani::stub(tracing::__macro_support::__is_enabled, tstubs::verif_tracing_not_enabled)]
        #[kani::stub(tracing::Event::dispatch, tstubs::verif_tracing_event_dispatch_noop)]
        #[kani::stub(tracing::Span::new, tstubs::verif_tracing_span_none)]
        fn $name() {
            harness($tls);
        }
    };
}

macro_rules! c23_bits_harness {
    ($name:ident, $bits:expr) => {
        #[kani::proof]
        #[kani::unwind(42)]
        #[kani::stub(alloc::fmt::format, stubs::verif_format_stub)]
        #[kani::stub(crate::file_writer::verify_allocations_message, stubs::verif_empty_string)]
        #[kani::stub(tracing::callsite::DefaultCallsite::interest, tstubs::verif_tracing_interest_never)]
        #[kani::stub(tracing::__macro_support::__is_enabled, tstubs::verif_tracing_not_enabled)]
        #[kani::stub(tracing::Event::dispatch, tstubs::verif_tracing_event_dispatch_noop)]
        #[kani::stub(tracing::Span::new, tstubs::verif_tracing_span_none)]
        fn $name() {
            harness_bits(true, Some($bits));
        }
    };
}
c23_bits_harness!(c23_tls_initial_exec_slot_only, ValueFlags::GOT_TLS_OFFSET);
c23_bits_harness!(c23_tls_general_dynamic_pair_only, ValueFlags::GOT_TLS_MODULE);
c23_bits_harness!(c23_tls_descriptor_only, ValueFlags::GOT_TLS_DESCRIPTOR);

c23_harness!(c23_non_tls_resolution_consumes_exactly_its_allocation, false);
c23_harness!(c23_tls_resolution_consumes_exactly_its_allocation_and_slots_agree, true);

#[kani::proof]
#[kani::unwind(42)]
fn c23_canary_flag_invariant_is_satisfiable_with_got_and_tls() {
    let kind = any_kind();
    let f = ValueFlags::from_bits_retain(kani::any());
    kani::assume(flags_invariant(f, kind));
    // must fail: both a PLT symbol and a three-way TLS symbol satisfy the invariant
    assert!(!(f.needs_plt() && f.is_dynamic()), "canary: imported function with PLT");
    assert!(!(f.needs_got_tls_offset() && f.needs_got_tls_module() && f.needs_got_tls_descriptor()), "canary: TLS symbol with all three access models");
}
