// ---- Route S prelude for C36: stand-ins for the dependencies of merge_gnu_property_notes ----
// ASSUMED (listed in the evidence):
//  * std::collections::HashMap behaves as a key->value map (modelled here as an association list
//    with the entry API subset the function uses); iteration order is unspecified, the function
//    sorts afterwards;
//  * itertools::Itertools::{collect_vec, sorted_by_key} are collect / stable sort;
//  * the values of object::elf::GNU_PROPERTY_* constants (restated from object-0.39 src/elf.rs).
use std::num::NonZeroU32;

pub const GNU_PROPERTY_UINT32_AND_LO: u32 = 0xb0000000;
pub const GNU_PROPERTY_UINT32_AND_HI: u32 = 0xb0007fff;
pub const GNU_PROPERTY_UINT32_OR_LO: u32 = 0xb0008000;
pub const GNU_PROPERTY_UINT32_OR_HI: u32 = 0xb000ffff;
pub const GNU_PROPERTY_X86_UINT32_AND_LO: u32 = 0xc0000002;
pub const GNU_PROPERTY_X86_UINT32_AND_HI: u32 = 0xc0007fff;
pub const GNU_PROPERTY_X86_UINT32_OR_LO: u32 = 0xc0008000;
pub const GNU_PROPERTY_X86_UINT32_OR_HI: u32 = 0xc000ffff;
pub const GNU_PROPERTY_X86_UINT32_OR_AND_LO: u32 = 0xc0010000;
pub const GNU_PROPERTY_X86_UINT32_OR_AND_HI: u32 = 0xc0017fff;
pub const GNU_PROPERTY_X86_ISA_1_NEEDED: u32 = 0xc0008002;

#[derive(Debug)]
pub struct VerifError;
pub type Result<T = (), E = VerifError> = core::result::Result<T, E>;
pub fn verif_error() -> VerifError { VerifError }

pub struct ObjectLayoutStateExt<'data> {
    pub gnu_property_notes: Vec<GnuProperty>,
    pub _p: core::marker::PhantomData<&'data ()>,
}

// association-list model of std HashMap (entry API subset)
pub struct HashMap<K, V> { items: Vec<(K, V)> }
pub struct Entry<'a, K, V> { map: &'a mut HashMap<K, V>, key: K, idx: Option<usize> }
impl<K: PartialEq + Copy, V> HashMap<K, V> {
    pub fn new() -> Self { HashMap { items: Vec::new() } }
    pub fn entry(&mut self, key: K) -> Entry<'_, K, V> {
        let mut idx = None;
        let mut i = 0;
        while i < self.items.len() {
            if self.items[i].0 == key { idx = Some(i); }
            i += 1;
        }
        Entry { map: self, key, idx }
    }
}
impl<'a, K: PartialEq + Copy, V> Entry<'a, K, V> {
    pub fn and_modify<F: FnOnce(&mut V)>(self, f: F) -> Self {
        if let Some(i) = self.idx { f(&mut self.map.items[i].1); }
        self
    }
    pub fn or_insert_with<F: FnOnce() -> V>(self, f: F) -> &'a mut V {
        match self.idx {
            Some(i) => &mut self.map.items[i].1,
            None => { self.map.items.push((self.key, f())); let n = self.map.items.len() - 1; &mut self.map.items[n].1 }
        }
    }
    pub fn or_insert(self, v: V) -> &'a mut V { self.or_insert_with(move || v) }
}
impl<K, V> IntoIterator for HashMap<K, V> {
    type Item = (K, V);
    type IntoIter = std::vec::IntoIter<(K, V)>;
    fn into_iter(self) -> Self::IntoIter { self.items.into_iter() }
}

// itertools subset
pub trait Itertools: Iterator + Sized {
    fn collect_vec(self) -> Vec<Self::Item> { self.collect() }
    fn sorted_by_key<K: Ord, F: FnMut(&Self::Item) -> K>(self, mut f: F) -> std::vec::IntoIter<Self::Item> {
        // insertion sort (stable), small inputs only
        let mut v: Vec<Self::Item> = Vec::new();
        for x in self {
            let mut pos = v.len();
            let mut i = 0;
            while i < v.len() {
                if f(&x) < f(&v[i]) && pos == v.len() { pos = i; }
                i += 1;
            }
            v.insert(pos, x);
        }
        v.into_iter()
    }
}
impl<I: Iterator> Itertools for I {}
