// ---- Route S harnesses for C36: the extracted merge_gnu_property_notes body with the extracted
// ---- x86-64 get_property_class, bounded: NF files x NP properties per file ----

const TYPES: [u32; 5] = [
    0xc0000002, // GNU_PROPERTY_X86_FEATURE_1_AND   (AND class)
    0xc0008002, // GNU_PROPERTY_X86_ISA_1_NEEDED    (OR class)
    0xc0010002, // GNU_PROPERTY_X86_ISA_1_USED      (OR_AND class)
    0xb0008000, // GNU_PROPERTY_1_NEEDED            (generic OR class)
    0xb0000000, // generic AND class
];

fn any_prop() -> GnuProperty {
    let k: usize = kani::any();
    kani::assume(k < TYPES.len());
    GnuProperty { ptype: TYPES[k], data: kani::any() }
}

// GNU ld (elf-properties.c) semantics for one property type over the per-file property lists
fn spec(files: &[Vec<GnuProperty>], t: u32) -> Option<u32> {
    let class = if t == TYPES[0] || t == TYPES[4] { 0 } else if t == TYPES[2] { 2 } else { 1 };
    let mut in_all = true;
    let mut in_any = false;
    let mut and_v: u32 = u32::MAX;
    let mut or_v: u32 = 0;
    for f in files {
        let mut here = false;
        for p in f.iter() {
            if p.ptype == t {
                here = true;
                and_v &= p.data;
                or_v |= p.data;
            }
        }
        in_all &= here;
        in_any |= here;
    }
    if !in_any {
        return None;
    }
    match class {
        0 => if in_all && and_v != 0 { Some(and_v) } else { None },
        1 => if or_v != 0 { Some(or_v) } else { None },
        _ => if in_all { Some(or_v) } else { None },
    }
}

fn run(nf: usize, np: usize) {
    let mut files: Vec<Vec<GnuProperty>> = Vec::new();
    let mut i = 0;
    while i < nf {
        let n: usize = kani::any();
        kani::assume(n <= np);
        let mut v = Vec::new();
        let mut j = 0;
        while j < n {
            v.push(any_prop());
            j += 1;
        }
        files.push(v);
        i += 1;
    }
    let states: Vec<ObjectLayoutStateExt<'static>> = files
        .iter()
        .map(|f| ObjectLayoutStateExt {
            gnu_property_notes: f.iter().map(|p| GnuProperty { ptype: p.ptype, data: p.data }).collect(),
            _p: core::marker::PhantomData,
        })
        .collect();
    let out = merge_gnu_property_notes(states.iter(), None).unwrap();
    // each type at most once, ascending order, value and presence per GNU ld
    let mut k = 0;
    while k < TYPES.len() {
        let t = TYPES[k];
        let mut found: Option<u32> = None;
        let mut count = 0;
        for p in out.iter() {
            if p.ptype == t {
                found = Some(p.data);
                count += 1;
            }
        }
        assert!(count <= 1, "a property type is emitted more than once");
        assert!(found == spec(&files, t), "merged GNU property differs from GNU ld's AND/OR rule");
        k += 1;
    }
    let mut i = 1;
    while i < out.len() {
        assert!(out[i - 1].ptype < out[i].ptype, "output properties not sorted by type");
        i += 1;
    }
}

#[kani::proof]
#[kani::unwind(7)]
fn c36_merge_two_files_two_props() {
    run(2, 2);
}

#[kani::proof]
#[kani::unwind(8)]
fn c36_merge_three_files_one_prop() {
    run(3, 1);
}

#[kani::proof]
#[kani::unwind(7)]
fn c36_isa_needed_from_command_line_is_ored_in() {
    let isa: u32 = kani::any();
    kani::assume(isa != 0);
    let d: u32 = kani::any();
    let has: bool = kani::any();
    let st = ObjectLayoutStateExt {
        gnu_property_notes: if has { vec![GnuProperty { ptype: 0xc0008002, data: d }] } else { Vec::new() },
        _p: core::marker::PhantomData,
    };
    let states = [st];
    let out = merge_gnu_property_notes(states.iter(), NonZeroU32::new(isa)).unwrap();
    assert!(out.len() == 1 && out[0].ptype == 0xc0008002);
    assert!(out[0].data == if has { d | isa } else { isa });
}

#[kani::proof]
#[kani::unwind(7)]
fn c36_unclassified_type_is_an_error() {
    let t: u32 = kani::any();
    kani::assume(get_property_class(t).is_none());
    let st = ObjectLayoutStateExt {
        gnu_property_notes: vec![GnuProperty { ptype: t, data: kani::any() }],
        _p: core::marker::PhantomData,
    };
    let states = [st];
    assert!(merge_gnu_property_notes(states.iter(), None).is_err());
}

// validate_stack_section: refused exactly when the input requests an executable stack and
// -z execstack was not given
pub struct SectionStandIn { pub exec: bool }
impl SectionStandIn { pub fn is_executable(&self) -> bool { self.exec } }
pub struct ArgsStandIn { pub execstack: bool }
pub struct NameStandIn;
impl std::fmt::Display for NameStandIn {
    fn fmt(&self, _f: &mut std::fmt::Formatter<'_>) -> std::fmt::Result { Ok(()) }
}

#[kani::proof]
fn c36_exec_stack_request_refused_exactly_without_execstack() {
    let s = SectionStandIn { exec: kani::any() };
    let a = ArgsStandIn { execstack: kani::any() };
    let r = validate_stack_section(&s, &NameStandIn, &a);
    assert!(r.is_ok() == !(s.exec && !a.execstack));
}

#[kani::proof]
#[kani::unwind(7)]
fn c36_canary_merge_reachable() {
    let st = ObjectLayoutStateExt {
        gnu_property_notes: vec![GnuProperty { ptype: 0xc0008002, data: kani::any() }],
        _p: core::marker::PhantomData,
    };
    let states = [st];
    let out = merge_gnu_property_notes(states.iter(), None).unwrap();
    assert!(out.is_empty(), "canary: must fail");
}
