// ---- Route S harnesses for C36: the extracted merge_gnu_property_notes body with the extracted
// ---- x86-64 get_property_class, bounded: NF files x NP properties per file ----

const TYPES: [u32; 5] = [
    0xc0000002, // GNU_PROPERTY_X86_FEATURE_1_AND   (AND class)
    0xc0008002, // GNU_PROPERTY_X86_ISA_1_NEEDED    (OR class)
    0xc0010002, // GNU_PROPERTY_X86_ISA_1_USED      (OR_AND class)
    0xb0008000, // GNU_PROPERTY_1_NEEDED            (generic OR class)
    0xb0000000, // generic AND class
];

fn class_of(t: u32) -> u8 { if t == TYPES[0] || t == TYPES[4] { 0 } else if t == TYPES[2] { 2 } else { 1 } }

// One symbolic property type t is followed through the merge ("for all t" by symbolic choice);
// the expected value is accumulated while the inputs are built (GNU ld elf-properties.c:
// AND-class: AND over all inputs, dropped if absent from any input or zero; OR-class: OR, dropped
// if zero; OR_AND-class: OR if present in all inputs, else dropped).
macro_rules! merge_harness {
    ($name:ident, $nf:expr, $np:expr, $unw:expr) => {
        #[kani::proof]
        #[kani::unwind($unw)]
        fn $name() {
            const NF: usize = $nf;
            const NP: usize = $np;
            let present: [[bool; NP]; NF] = kani::any();
            let kidx: [[u8; NP]; NF] = kani::any();
            let data: [[u32; NP]; NF] = kani::any();
            let t_i: u8 = kani::any();
            kani::assume((t_i as usize) < TYPES.len());
            let t = TYPES[t_i as usize];
            let mut states: Vec<ObjectLayoutStateExt<'static>> = Vec::new();
            let mut in_all = true; let mut in_any = false; let mut and_v = u32::MAX; let mut or_v = 0u32;
            let mut i = 0;
            while i < NF {
                let mut v = Vec::new();
                let mut here = false;
                let mut j = 0;
                while j < NP {
                    kani::assume((kidx[i][j] as usize) < TYPES.len());
                    if present[i][j] {
                        let pt = TYPES[kidx[i][j] as usize];
                        v.push(GnuProperty { ptype: pt, data: data[i][j] });
                        if pt == t { here = true; and_v &= data[i][j]; or_v |= data[i][j]; }
                    }
                    j += 1;
                }
                in_all &= here; in_any |= here;
                states.push(ObjectLayoutStateExt { gnu_property_notes: v, _p: core::marker::PhantomData });
                i += 1;
            }
            let expect: Option<u32> = if !in_any { None } else {
                match class_of(t) {
                    0 => if in_all && and_v != 0 { Some(and_v) } else { None },
                    1 => if or_v != 0 { Some(or_v) } else { None },
                    _ => if in_all { Some(or_v) } else { None },
                }
            };
            let out = match merge_gnu_property_notes(states.iter(), None) {
                Ok(o) => o,
                Err(_) => { assert!(false, "classified types must merge"); return; }
            };
            let mut found: Option<u32> = None;
            let mut count = 0u32;
            let mut sorted = true;
            let mut k = 0;
            while k < out.len() {
                if out[k].ptype == t { found = Some(out[k].data); count += 1; }
                if k > 0 && !(out[k - 1].ptype < out[k].ptype) { sorted = false; }
                k += 1;
            }
            assert!(count <= 1, "a property type is emitted more than once");
            assert!(found == expect, "merged GNU property differs from GNU ld's AND/OR rule");
            assert!(sorted, "output properties not sorted by type");
        }
    };
}
merge_harness!(c36_merge_one_file_one_prop, 1, 1, 4);

fn isa_needed_case(has: bool) {
    let isa: u32 = kani::any();
    kani::assume(isa != 0);
    let d: u32 = kani::any();
    let st = ObjectLayoutStateExt {
        gnu_property_notes: if has { vec![GnuProperty { ptype: 0xc0008002, data: d }] } else { Vec::new() },
        _p: core::marker::PhantomData,
    };
    let states = [st];
    let out = match merge_gnu_property_notes(states.iter(), NonZeroU32::new(isa)) {
        Ok(o) => o,
        Err(_) => { assert!(false, "ISA_1_NEEDED must merge"); return; }
    };
    assert!(out.len() == 1 && out[0].ptype == 0xc0008002);
    assert!(out[0].data == if has { d | isa } else { isa });
}

#[kani::proof]
#[kani::unwind(7)]
fn c36_isa_needed_from_command_line_is_ored_in() {
    isa_needed_case(true);
}

#[kani::proof]
#[kani::unwind(7)]
fn c36_isa_needed_from_command_line_alone() {
    isa_needed_case(false);
}

#[kani::proof]
#[kani::unwind(7)]
fn c36_unclassified_type_is_an_error() {
    let t: u32 = kani::any();
    kani::assume(get_property_class(t).is_none());
    let st = ObjectLayoutStateExt {
        gnu_property_notes: vec![GnuProperty { ptype: t, data: kani::any() }],
        _p: core::marker::PhantomData,
    };
    let states = [st];
    assert!(merge_gnu_property_notes(states.iter(), None).is_err());
}

// validate_stack_section: refused exactly when the input requests an executable stack and
// -z execstack was not given
pub struct SectionStandIn { pub exec: bool }
impl SectionStandIn { pub fn is_executable(&self) -> bool { self.exec } }
pub struct ArgsStandIn { pub execstack: bool }
pub struct NameStandIn;
impl std::fmt::Display for NameStandIn {
    fn fmt(&self, _f: &mut std::fmt::Formatter<'_>) -> std::fmt::Result { Ok(()) }
}

#[kani::proof]
fn c36_exec_stack_request_refused_exactly_without_execstack() {
    let s = SectionStandIn { exec: kani::any() };
    let a = ArgsStandIn { execstack: kani::any() };
    let r = validate_stack_section(&s, &NameStandIn, &a);
    assert!(r.is_ok() == !(s.exec && !a.execstack));
}

#[kani::proof]
#[kani::unwind(7)]
fn c36_canary_merge_reachable() {
    let st = ObjectLayoutStateExt {
        gnu_property_notes: vec![GnuProperty { ptype: 0xc0008002, data: kani::any() }],
        _p: core::marker::PhantomData,
    };
    let states = [st];
    let out = match merge_gnu_property_notes(states.iter(), None) { Ok(o) => o, Err(_) => return };
    assert!(out.is_empty(), "canary: must fail");
}

// ---- two input files, concrete shapes and concrete property types, symbolic data ----
// (a symbolic type index / symbolic presence matrix exhausts CBMC for two files; with the shape
// fixed per obligation the fold over two inputs is decided for every 32-bit data word)
fn two_files(f0: &[(u32, u32)], f1: &[(u32, u32)]) -> Vec<GnuProperty> {
    let mut v0 = Vec::with_capacity(2);
    let mut i = 0;
    while i < f0.len() { v0.push(GnuProperty { ptype: f0[i].0, data: f0[i].1 }); i += 1; }
    let mut v1 = Vec::with_capacity(2);
    let mut j = 0;
    while j < f1.len() { v1.push(GnuProperty { ptype: f1[j].0, data: f1[j].1 }); j += 1; }
    let states = [
        ObjectLayoutStateExt { gnu_property_notes: v0, _p: core::marker::PhantomData },
        ObjectLayoutStateExt { gnu_property_notes: v1, _p: core::marker::PhantomData },
    ];
    match merge_gnu_property_notes(states.iter(), None) {
        Ok(o) => o,
        Err(_) => { assert!(false, "classified types must merge"); Vec::new() }
    }
}

// GNU ld's rule for one type over two inputs; `p0`/`p1`: values the type has in file 0 / file 1
// (None = the file does not carry it; a file carrying it twice contributes both words, folded
// with the class operator)
fn expect_two(class: u8, p0: Option<u32>, p1: Option<u32>, and_v: u32, or_v: u32) -> Option<u32> {
    let in_all = p0.is_some() && p1.is_some();
    match class {
        0 => if in_all && and_v != 0 { Some(and_v) } else { None },
        1 => if or_v != 0 { Some(or_v) } else { None },
        _ => if in_all { Some(or_v) } else { None },
    }
}

fn check_single(out: &Vec<GnuProperty>, t: u32, expect: Option<u32>) {
    match expect {
        None => assert!(out.is_empty(), "a property that GNU ld drops is emitted"),
        Some(v) => {
            assert!(out.len() == 1, "merged property missing or emitted more than once");
            assert!(out[0].ptype == t && out[0].data == v, "merged GNU property differs from GNU ld's AND/OR rule");
        }
    }
}

macro_rules! both_files_carry {
    ($name:ident, $t:expr, $class:expr) => {
        #[kani::proof]
        #[kani::unwind(5)]
        fn $name() {
            let d0: u32 = kani::any();
            let d1: u32 = kani::any();
            let out = two_files(&[($t, d0)], &[($t, d1)]);
            check_single(&out, $t, expect_two($class, Some(d0), Some(d1), d0 & d1, d0 | d1));
        }
    };
}
both_files_carry!(c36_two_files_both_carry_and_class, 0xc0000002, 0);
both_files_carry!(c36_two_files_both_carry_or_class, 0xc0008002, 1);
both_files_carry!(c36_two_files_both_carry_or_and_class, 0xc0010002, 2);
both_files_carry!(c36_two_files_both_carry_generic_and_class, 0xb0000000, 0);

// one file carries the type TWICE, the other carries no note at all: "present in every input"
// is per FILE, not per entry
macro_rules! duplicate_and_noteless {
    ($name:ident, $t:expr, $class:expr) => {
        #[kani::proof]
        #[kani::unwind(5)]
        fn $name() {
            let d0: u32 = kani::any();
            let d1: u32 = kani::any();
            let out = two_files(&[($t, d0), ($t, d1)], &[]);
            check_single(&out, $t, expect_two($class, Some(d0), None, d0 & d1, d0 | d1));
        }
    };
}
duplicate_and_noteless!(c36_two_files_duplicate_and_noteless_and_class, 0xc0000002, 0);
duplicate_and_noteless!(c36_two_files_duplicate_and_noteless_or_class, 0xc0008002, 1);
duplicate_and_noteless!(c36_two_files_duplicate_and_noteless_or_and_class, 0xc0010002, 2);

// the two files carry DIFFERENT types: an AND-class type missing from one input is dropped, an
// OR-class type survives, output sorted by type
#[kani::proof]
#[kani::unwind(5)]
fn c36_two_files_different_types() {
    let d0: u32 = kani::any();
    let d1: u32 = kani::any();
    // file 0: ISA_1_NEEDED (OR); file 1: FEATURE_1_AND (AND)
    let out = two_files(&[(0xc0008002, d0)], &[(0xc0000002, d1)]);
    check_single(&out, 0xc0008002, if d0 != 0 { Some(d0) } else { None });
}

#[kani::proof]
#[kani::unwind(5)]
fn c36_two_files_two_types_each_sorted() {
    let a0: u32 = kani::any();
    let a1: u32 = kani::any();
    let o0: u32 = kani::any();
    let o1: u32 = kani::any();
    // both files carry an OR-class and an AND-class type, in opposite orders
    let out = two_files(&[(0xc0008002, o0), (0xc0000002, a0)], &[(0xc0000002, a1), (0xc0008002, o1)]);
    let and_v = a0 & a1;
    let or_v = o0 | o1;
    let n = (and_v != 0) as usize + (or_v != 0) as usize;
    assert!(out.len() == n, "wrong number of merged properties");
    if and_v != 0 { assert!(out[0].ptype == 0xc0000002 && out[0].data == and_v, "AND-class fold wrong or output unsorted"); }
    if or_v != 0 { assert!(out[n - 1].ptype == 0xc0008002 && out[n - 1].data == or_v, "OR-class fold wrong or output unsorted"); }
}

// ---- three input files, fixed shapes ----
fn three_files(f0: &[(u32, u32)], f1: &[(u32, u32)], f2: &[(u32, u32)]) -> Vec<GnuProperty> {
    let fs = [f0, f1, f2];
    let mut vs: [Vec<GnuProperty>; 3] = [Vec::with_capacity(2), Vec::with_capacity(2), Vec::with_capacity(2)];
    let mut n = 0;
    while n < 3 {
        let mut i = 0;
        while i < fs[n].len() { vs[n].push(GnuProperty { ptype: fs[n][i].0, data: fs[n][i].1 }); i += 1; }
        n += 1;
    }
    let [v0, v1, v2] = vs;
    let states = [
        ObjectLayoutStateExt { gnu_property_notes: v0, _p: core::marker::PhantomData },
        ObjectLayoutStateExt { gnu_property_notes: v1, _p: core::marker::PhantomData },
        ObjectLayoutStateExt { gnu_property_notes: v2, _p: core::marker::PhantomData },
    ];
    match merge_gnu_property_notes(states.iter(), None) {
        Ok(o) => o,
        Err(_) => { assert!(false, "classified types must merge"); Vec::new() }
    }
}

macro_rules! three_files_all_carry {
    ($name:ident, $t:expr, $class:expr) => {
        #[kani::proof]
        #[kani::unwind(5)]
        fn $name() {
            let d0: u32 = kani::any();
            let d1: u32 = kani::any();
            let d2: u32 = kani::any();
            let out = three_files(&[($t, d0)], &[($t, d1)], &[($t, d2)]);
            check_single(&out, $t, expect_two($class, Some(d0), Some(d1), d0 & d1 & d2, d0 | d1 | d2));
        }
    };
}
three_files_all_carry!(c36_three_files_all_carry_and_class, 0xc0000002, 0);
three_files_all_carry!(c36_three_files_all_carry_or_class, 0xc0008002, 1);
three_files_all_carry!(c36_three_files_all_carry_or_and_class, 0xc0010002, 2);

// the MIDDLE file lacks the type: absent from one input of three
macro_rules! three_files_middle_lacks {
    ($name:ident, $t:expr, $class:expr) => {
        #[kani::proof]
        #[kani::unwind(5)]
        fn $name() {
            let d0: u32 = kani::any();
            let d2: u32 = kani::any();
            let out = three_files(&[($t, d0)], &[], &[($t, d2)]);
            check_single(&out, $t, expect_two($class, Some(d0), None, d0 & d2, d0 | d2));
        }
    };
}
three_files_middle_lacks!(c36_three_files_middle_lacks_and_class, 0xc0000002, 0);
three_files_middle_lacks!(c36_three_files_middle_lacks_or_class, 0xc0008002, 1);
three_files_middle_lacks!(c36_three_files_middle_lacks_or_and_class, 0xc0010002, 2);

// ---- EVERY classified 32-bit property type (symbolic), fixed shapes ----
fn class_code(t: u32) -> u8 {
    match get_property_class(t) {
        Some(PropertyClass::And) => 0,
        Some(PropertyClass::Or) => 1,
        Some(PropertyClass::AndOr) => 2,
        None => 3,
    }
}

#[kani::proof]
#[kani::unwind(5)]
fn c36_two_files_both_carry_any_classified_type() {
    let t: u32 = kani::any();
    let c = class_code(t);
    kani::assume(c < 3);
    let d0: u32 = kani::any();
    let d1: u32 = kani::any();
    let out = two_files(&[(t, d0)], &[(t, d1)]);
    check_single(&out, t, expect_two(c, Some(d0), Some(d1), d0 & d1, d0 | d1));
}

#[kani::proof]
#[kani::unwind(5)]
fn c36_two_files_duplicate_and_noteless_any_classified_type() {
    let t: u32 = kani::any();
    let c = class_code(t);
    kani::assume(c < 3);
    let d0: u32 = kani::any();
    let d1: u32 = kani::any();
    let out = two_files(&[(t, d0), (t, d1)], &[]);
    check_single(&out, t, expect_two(c, Some(d0), None, d0 & d1, d0 | d1));
}

#[kani::proof]
#[kani::unwind(5)]
fn c36_two_files_one_carries_any_classified_type() {
    let t: u32 = kani::any();
    let c = class_code(t);
    kani::assume(c < 3);
    let d0: u32 = kani::any();
    let first: bool = kani::any();
    let out = if first { two_files(&[(t, d0)], &[]) } else { two_files(&[], &[(t, d0)]) };
    check_single(&out, t, expect_two(c, Some(d0), None, d0, d0));
}

#[kani::proof]
#[kani::unwind(5)]
fn c36_three_files_middle_lacks_any_classified_type() {
    let t: u32 = kani::any();
    let c = class_code(t);
    kani::assume(c < 3);
    let d0: u32 = kani::any();
    let d2: u32 = kani::any();
    let out = three_files(&[(t, d0)], &[], &[(t, d2)]);
    check_single(&out, t, expect_two(c, Some(d0), None, d0 & d2, d0 | d2));
}

#[kani::proof]
#[kani::unwind(5)]
fn c36_two_files_one_prop_each_any_two_classified_types() {
    let t0: u32 = kani::any();
    let t1: u32 = kani::any();
    let c0 = class_code(t0);
    let c1 = class_code(t1);
    kani::assume(c0 < 3 && c1 < 3);
    let d0: u32 = kani::any();
    let d1: u32 = kani::any();
    let out = two_files(&[(t0, d0)], &[(t1, d1)]);
    if t0 == t1 {
        check_single(&out, t0, expect_two(c0, Some(d0), Some(d1), d0 & d1, d0 | d1));
    } else {
        // each type is absent from one input: only a non-zero OR-class value survives
        let e0 = c0 == 1 && d0 != 0;
        let e1 = c1 == 1 && d1 != 0;
        assert!(out.len() == e0 as usize + e1 as usize, "wrong number of merged properties");
        if e0 && e1 {
            let (lo, lo_d, hi, hi_d) = if t0 < t1 { (t0, d0, t1, d1) } else { (t1, d1, t0, d0) };
            assert!(out[0].ptype == lo && out[0].data == lo_d && out[1].ptype == hi && out[1].data == hi_d,
                "merged values wrong or output not sorted by type");
        } else if e0 {
            assert!(out[0].ptype == t0 && out[0].data == d0, "merged GNU property differs from GNU ld's AND/OR rule");
        } else if e1 {
            assert!(out[0].ptype == t1 && out[0].data == d1, "merged GNU property differs from GNU ld's AND/OR rule");
        }
    }
}

// -z x86-64-vN with TWO inputs that both carry ISA_1_NEEDED: OR of both words and the CLI bits
#[kani::proof]
#[kani::unwind(5)]
fn c36_isa_needed_from_command_line_two_files() {
    let isa: u32 = kani::any();
    kani::assume(isa != 0);
    let d0: u32 = kani::any();
    let d1: u32 = kani::any();
    let mut v0 = Vec::with_capacity(1);
    v0.push(GnuProperty { ptype: 0xc0008002, data: d0 });
    let mut v1 = Vec::with_capacity(1);
    v1.push(GnuProperty { ptype: 0xc0008002, data: d1 });
    let states = [
        ObjectLayoutStateExt { gnu_property_notes: v0, _p: core::marker::PhantomData },
        ObjectLayoutStateExt { gnu_property_notes: v1, _p: core::marker::PhantomData },
    ];
    let out = match merge_gnu_property_notes(states.iter(), NonZeroU32::new(isa)) {
        Ok(o) => o,
        Err(_) => { assert!(false, "ISA_1_NEEDED must merge"); return; }
    };
    assert!(out.len() == 1 && out[0].ptype == 0xc0008002, "ISA_1_NEEDED missing or duplicated");
    assert!(out[0].data == d0 | d1 | isa, "-z x86-64-vN bits not ORed into the merged ISA_1_NEEDED");
}
