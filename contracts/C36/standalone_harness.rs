// ---- Route S harnesses for C36: the extracted merge_gnu_property_notes body with the extracted
// ---- x86-64 get_property_class, bounded: NF files x NP properties per file ----

const TYPES: [u32; 5] = [
    0xc0000002, // GNU_PROPERTY_X86_FEATURE_1_AND   (AND class)
    0xc0008002, // GNU_PROPERTY_X86_ISA_1_NEEDED    (OR class)
    0xc0010002, // GNU_PROPERTY_X86_ISA_1_USED      (OR_AND class)
    0xb0008000, // GNU_PROPERTY_1_NEEDED            (generic OR class)
    0xb0000000, // generic AND class
];

fn class_of(t: u32) -> u8 { if t == TYPES[0] || t == TYPES[4] { 0 } else if t == TYPES[2] { 2 } else { 1 } }

// One symbolic property type t is followed through the merge ("for all t" by symbolic choice);
// the expected value is accumulated while the inputs are built (GNU ld elf-properties.c:
// AND-class: AND over all inputs, dropped if absent from any input or zero; OR-class: OR, dropped
// if zero; OR_AND-class: OR if present in all inputs, else dropped).
macro_rules! merge_harness {
    ($name:ident, $nf:expr, $np:expr, $unw:expr) => {
        #[kani::proof]
        #[kani::unwind($unw)]
        fn $name() {
            const NF: usize = $nf;
            const NP: usize = $np;
            let present: [[bool; NP]; NF] = kani::any();
            let kidx: [[u8; NP]; NF] = kani::any();
            let data: [[u32; NP]; NF] = kani::any();
            let t_i: u8 = kani::any();
            kani::assume((t_i as usize) < TYPES.len());
            let t = TYPES[t_i as usize];
            let mut states: Vec<ObjectLayoutStateExt<'static>> = Vec::new();
            let mut in_all = true; let mut in_any = false; let mut and_v = u32::MAX; let mut or_v = 0u32;
            let mut i = 0;
            while i < NF {
                let mut v = Vec::new();
                let mut here = false;
                let mut j = 0;
                while j < NP {
                    kani::assume((kidx[i][j] as usize) < TYPES.len());
                    if present[i][j] {
                        let pt = TYPES[kidx[i][j] as usize];
                        v.push(GnuProperty { ptype: pt, data: data[i][j] });
                        if pt == t { here = true; and_v &= data[i][j]; or_v |= data[i][j]; }
                    }
                    j += 1;
                }
                in_all &= here; in_any |= here;
                states.push(ObjectLayoutStateExt { gnu_property_notes: v, _p: core::marker::PhantomData });
                i += 1;
            }
            let expect: Option<u32> = if !in_any { None } else {
                match class_of(t) {
                    0 => if in_all && and_v != 0 { Some(and_v) } else { None },
                    1 => if or_v != 0 { Some(or_v) } else { None },
                    _ => if in_all { Some(or_v) } else { None },
                }
            };
            let out = match merge_gnu_property_notes(states.iter(), None) {
                Ok(o) => o,
                Err(_) => { assert!(false, "classified types must merge"); return; }
            };
            let mut found: Option<u32> = None;
            let mut count = 0u32;
            let mut sorted = true;
            let mut k = 0;
            while k < out.len() {
                if out[k].ptype == t { found = Some(out[k].data); count += 1; }
                if k > 0 && !(out[k - 1].ptype < out[k].ptype) { sorted = false; }
                k += 1;
            }
            assert!(count <= 1, "a property type is emitted more than once");
            assert!(found == expect, "merged GNU property differs from GNU ld's AND/OR rule");
            assert!(sorted, "output properties not sorted by type");
        }
    };
}
merge_harness!(c36_merge_one_file_one_prop, 1, 1, 4);

fn isa_needed_case(has: bool) {
    let isa: u32 = kani::any();
    kani::assume(isa != 0);
    let d: u32 = kani::any();
    let st = ObjectLayoutStateExt {
        gnu_property_notes: if has { vec![GnuProperty { ptype: 0xc0008002, data: d }] } else { Vec::new() },
        _p: core::marker::PhantomData,
    };
    let states = [st];
    let out = match merge_gnu_property_notes(states.iter(), NonZeroU32::new(isa)) {
        Ok(o) => o,
        Err(_) => { assert!(false, "ISA_1_NEEDED must merge"); return; }
    };
    assert!(out.len() == 1 && out[0].ptype == 0xc0008002);
    assert!(out[0].data == if has { d | isa } else { isa });
}

#[kani::proof]
#[kani::unwind(7)]
fn c36_isa_needed_from_command_line_is_ored_in() {
    isa_needed_case(true);
}

#[kani::proof]
#[kani::unwind(7)]
fn c36_isa_needed_from_command_line_alone() {
    isa_needed_case(false);
}

#[kani::proof]
#[kani::unwind(7)]
fn c36_unclassified_type_is_an_error() {
    let t: u32 = kani::any();
    kani::assume(get_property_class(t).is_none());
    let st = ObjectLayoutStateExt {
        gnu_property_notes: vec![GnuProperty { ptype: t, data: kani::any() }],
        _p: core::marker::PhantomData,
    };
    let states = [st];
    assert!(merge_gnu_property_notes(states.iter(), None).is_err());
}

// validate_stack_section: refused exactly when the input requests an executable stack and
// -z execstack was not given
pub struct SectionStandIn { pub exec: bool }
impl SectionStandIn { pub fn is_executable(&self) -> bool { self.exec } }
pub struct ArgsStandIn { pub execstack: bool }
pub struct NameStandIn;
impl std::fmt::Display for NameStandIn {
    fn fmt(&self, _f: &mut std::fmt::Formatter<'_>) -> std::fmt::Result { Ok(()) }
}

#[kani::proof]
fn c36_exec_stack_request_refused_exactly_without_execstack() {
    let s = SectionStandIn { exec: kani::any() };
    let a = ArgsStandIn { execstack: kani::any() };
    let r = validate_stack_section(&s, &NameStandIn, &a);
    assert!(r.is_ok() == !(s.exec && !a.execstack));
}

#[kani::proof]
#[kani::unwind(7)]
fn c36_canary_merge_reachable() {
    let st = ObjectLayoutStateExt {
        gnu_property_notes: vec![GnuProperty { ptype: 0xc0008002, data: kani::any() }],
        _p: core::marker::PhantomData,
    };
    let states = [st];
    let out = match merge_gnu_property_notes(states.iter(), None) { Ok(o) => o, Err(_) => return };
    assert!(out.is_empty(), "canary: must fail");
}
