// C36 (classification + exec-stack predicate only): child module of libwild::elf.
//
// Oracle: GNU ld's elf-properties.c / the gABI Linux extension and the x86-64 psABI:
//   GNU_PROPERTY_UINT32_AND_LO..HI      0xb0000000..0xb0007fff  AND   (all targets)
//   GNU_PROPERTY_UINT32_OR_LO..HI       0xb0008000..0xb000ffff  OR    (all targets; GNU_PROPERTY_1_NEEDED)
//   GNU_PROPERTY_X86_UINT32_AND_LO..HI  0xc0000002..0xc0007fff  AND   (X86_FEATURE_1_AND = 0xc0000002)
//   GNU_PROPERTY_X86_UINT32_OR_LO..HI   0xc0008000..0xc000ffff  OR    (X86_ISA_1_NEEDED = 0xc0008002)
//   GNU_PROPERTY_X86_UINT32_OR_AND_LO..HI 0xc0010000..0xc0017fff OR_AND (X86_ISA_1_USED, FEATURE_2_USED)
//   GNU_PROPERTY_AARCH64_FEATURE_1_AND  0xc0000000              AND
use super::*;
use crate::platform::Arch as _;


#[derive(PartialEq, Clone, Copy)]
enum Cls {
    And,
    Or,
    OrAnd,
    Unknown,
}

fn observed(c: Option<PropertyClass>) -> Cls {
    match c {
        Some(PropertyClass::And) => Cls::And,
        Some(PropertyClass::Or) => Cls::Or,
        Some(PropertyClass::AndOr) => Cls::OrAnd,
        None => Cls::Unknown,
    }
}

fn generic(t: u32) -> Cls {
    if (0xb000_0000..=0xb000_7fff).contains(&t) {
        Cls::And
    } else if (0xb000_8000..=0xb000_ffff).contains(&t) {
        Cls::Or
    } else {
        Cls::Unknown
    }
}

fn oracle_x86(t: u32) -> Cls {
    if (0xc000_0002..=0xc000_7fff).contains(&t) {
        Cls::And
    } else if (0xc000_8000..=0xc000_ffff).contains(&t) {
        Cls::Or
    } else if (0xc001_0000..=0xc001_7fff).contains(&t) {
        Cls::OrAnd
    } else {
        generic(t)
    }
}

fn oracle_aarch64(t: u32) -> Cls {
    if t == 0xc000_0000 { Cls::And } else { generic(t) }
}

#[kani::proof]
fn c36_x86_64_property_class_matches_psabi_for_every_type() {
    let t: u32 = kani::any();
    let got = observed(<crate::elf_x86_64::ElfX86_64 as crate::platform::Arch>::get_property_class(t));
    assert!(got == oracle_x86(t), "x86-64 GNU property type merged under the wrong class");
}

#[kani::proof]
fn c36_aarch64_property_class_matches_abi_for_every_type() {
    let t: u32 = kani::any();
    let got = observed(<crate::elf_aarch64::ElfAArch64 as crate::platform::Arch>::get_property_class(t));
    assert!(got == oracle_aarch64(t), "AArch64 GNU property type merged under the wrong class");
}

#[kani::proof]
fn c36_canary_classes_reachable() {
    let t: u32 = kani::any();
    let got = observed(<crate::elf_x86_64::ElfX86_64 as crate::platform::Arch>::get_property_class(t));
    assert!(got == Cls::Unknown, "canary: must fail");
}
