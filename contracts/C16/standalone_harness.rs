// ---- Route S harnesses for C16: the extracted, otherwise verbatim evaluate_expression /
// ---- evaluate_assertions / line_number bodies under CBMC ----

fn n(v: u64) -> Box<Expression<'static>> {
    Box::new(Expression::Number(v))
}

fn eval(e: &Expression<'static>) -> Option<u64> {
    let l = SectionLayoutsOpaque { p: 0 };
    let o = OutputSectionsOpaque { p: 0 };
    let w = WarningCallbackOpaque { p: 0 };
    evaluate_expression(e, &l, &o, &w, &[]).ok()
}

// GNU ld semantics (ldexp.c), written independently of the code under test
fn spec_bin(op: u8, a: u64, b: u64) -> Option<u64> {
    Some(match op {
        0 => a.wrapping_add(b),
        1 => a.wrapping_sub(b),
        2 => a.wrapping_mul(b),
        3 => {
            if b == 0 {
                return None;
            }
            // signed division, truncating toward zero, wrapping on i64::MIN / -1
            let (x, y) = (a as i64, b as i64);
            if x == i64::MIN && y == -1 { x as u64 } else { (x / y) as u64 }
        }
        4 => (a < b) as u64,
        5 => (a > b) as u64,
        6 => (a <= b) as u64,
        7 => (a >= b) as u64,
        8 => (a == b) as u64,
        9 => (a != b) as u64,
        10 => if a <= b { a } else { b },
        11 => if a >= b { a } else { b },
        12 => a & b,
        13 => a | b,
        14 => a ^ b,
        15 => a << (b % 64),
        16 => a >> (b % 64),
        17 => (a != 0 && b != 0) as u64,
        _ => (a != 0 || b != 0) as u64,
    })
}

fn mk_bin(op: u8, l: Box<Expression<'static>>, r: Box<Expression<'static>>) -> Expression<'static> {
    match op {
        0 => Expression::Add(l, r),
        1 => Expression::Subtract(l, r),
        2 => Expression::Multiply(l, r),
        3 => Expression::Divide(l, r),
        4 => Expression::LessThan(l, r),
        5 => Expression::GreaterThan(l, r),
        6 => Expression::LessEqual(l, r),
        7 => Expression::GreaterEqual(l, r),
        8 => Expression::Equal(l, r),
        9 => Expression::NotEqual(l, r),
        10 => Expression::Min(l, r),
        11 => Expression::Max(l, r),
        12 => Expression::BitwiseAnd(l, r),
        13 => Expression::BitwiseOr(l, r),
        14 => Expression::BitwiseXor(l, r),
        15 => Expression::LeftShift(l, r),
        16 => Expression::RightShift(l, r),
        17 => Expression::LogicalAnd(l, r),
        _ => Expression::LogicalOr(l, r),
    }
}
const NUM_BIN: u8 = 19;

#[kani::proof]
#[kani::unwind(4)]
#[kani::solver(z3)] // 64-bit division equivalence is SAT-hard; CBMC's SMT2 back end with z3 decides it in seconds
fn c16_kani_divide_signed() {
    // discharges verif_signed_div's contract (rule X9 of the Verus route) on the Divide arm
    let a: u64 = kani::any();
    let b: u64 = kani::any();
    assert!(eval(&Expression::Divide(n(a), n(b))) == spec_bin(3, a, b), "division is not GNU ld's signed division");
}

#[kani::proof]
#[kani::unwind(4)]
fn c16_kani_shift_left_mod64() {
    let a: u64 = kani::any();
    let b: u64 = kani::any();
    assert!(eval(&Expression::LeftShift(n(a), n(b))) == Some(a << (b % 64)), "shift count not taken modulo 64");
}

#[kani::proof]
#[kani::unwind(4)]
fn c16_kani_shift_right_mod64() {
    let a: u64 = kani::any();
    let b: u64 = kani::any();
    assert!(eval(&Expression::RightShift(n(a), n(b))) == Some(a >> (b % 64)), "shift count not taken modulo 64");
}

#[kani::proof]
#[kani::unwind(4)]
fn c16_kani_every_binary_operator() {
    let op: u8 = kani::any();
    kani::assume(op < NUM_BIN && op != 2 && op != 3);
    let a: u64 = kani::any();
    let b: u64 = kani::any();
    assert!(eval(&mk_bin(op, n(a), n(b))) == spec_bin(op, a, b), "binary operator differs from GNU ld's semantics");
}

#[kani::proof]
#[kani::unwind(4)]
fn c16_kani_multiply_wraps() {
    let a: u64 = kani::any();
    let b: u64 = kani::any();
    assert!(eval(&Expression::Multiply(n(a), n(b))) == Some(a.wrapping_mul(b)));
}

#[kani::proof]
#[kani::unwind(4)]
fn c16_kani_unary_operators() {
    let a: u64 = kani::any();
    assert!(eval(&Expression::LogicalNot(n(a))) == Some((a == 0) as u64));
    assert!(eval(&Expression::BitwiseNot(n(a))) == Some(!a));
    assert!(eval(&Expression::Negate(n(a))) == Some(0u64.wrapping_sub(a)));
    // ALIGN(n) with '.' at 0: 0 for every n > 0, error for 0
    assert!(eval(&Expression::Align(n(a))) == if a == 0 { None } else { Some(0) });
    assert!(eval(&Expression::Number(a)) == Some(a));
    assert!(eval(&Expression::LocationCounter) == Some(0));
}

macro_rules! one_eval {
    ($name:ident, $e:expr, $expect:expr) => {
        #[kani::proof]
        #[kani::unwind(4)]
        fn $name() {
            let a: u64 = kani::any();
            let _ = a;
            assert!(eval(&$e) == $expect);
        }
    };
}
// an error in an evaluated operand is an error of the whole expression
one_eval!(c16_kani_error_propagates_left, Expression::Add(Box::new(Expression::Origin(b"err")), n(1)), None);
one_eval!(c16_kani_error_propagates_right, Expression::Add(n(1), Box::new(Expression::Origin(b"err"))), None);
one_eval!(c16_kani_error_propagates_unary, Expression::LogicalNot(Box::new(Expression::Origin(b"err"))), None);
// C short-circuit: the right operand is not evaluated when the left decides
one_eval!(c16_kani_and_short_circuits, Expression::LogicalAnd(n(0), Box::new(Expression::Origin(b"err"))), Some(0));
one_eval!(c16_kani_or_short_circuits, Expression::LogicalOr(n(1), Box::new(Expression::Origin(b"err"))), Some(1));
one_eval!(c16_kani_and_evaluates_right_when_needed, Expression::LogicalAnd(n(1), Box::new(Expression::Origin(b"err"))), None);
one_eval!(c16_kani_or_evaluates_right_when_needed, Expression::LogicalOr(n(0), Box::new(Expression::Origin(b"err"))), None);

// ASSERT fails exactly when its expression evaluates to zero
#[kani::proof]
#[kani::unwind(3)]
fn c16_kani_assert_fails_exactly_on_zero() {
    let c: u64 = kani::any();
    let script = ScriptStandIn {
        parsed: ParsedStandIn {
            input: InputStandIn,
            assertions: vec![AssertCommand { expression: Expression::Number(c), message: b"", remainder: b"" }],
            file_bytes: b"",
            memory_regions: Vec::new(),
        },
    };
    let groups = [Group::LinkerScripts(vec![script])];
    let l = SectionLayoutsOpaque { p: 0 };
    let o = OutputSectionsOpaque { p: 0 };
    let w = WarningCallbackOpaque { p: 0 };
    let r = evaluate_assertions(&groups, &l, &o, &w);
    assert!(r.is_ok() == (c != 0), "ASSERT must fail exactly when its expression is zero");
}

#[kani::proof]
#[kani::unwind(3)]
fn c16_kani_assert_ignores_other_groups() {
    let groups = [Group::Other];
    let l = SectionLayoutsOpaque { p: 0 };
    let o = OutputSectionsOpaque { p: 0 };
    let w = WarningCallbackOpaque { p: 0 };
    assert!(evaluate_assertions(&groups, &l, &o, &w).is_ok());
}

// vacuity canary (must fail)
#[kani::proof]
#[kani::unwind(4)]
fn c16_kani_canary_eval_reachable() {
    let a: u64 = kani::any();
    assert!(eval(&Expression::Add(n(a), n(1))) == Some(a), "canary: must fail");
}
