// C16, Route K: the real evaluate_expression / evaluate_assertions on the real crate.
//  * discharges the contracts that the Verus proof uses as stubs (rule X9): signed division and
//    shifts with the count taken modulo 64, bit-precisely for all 2^128 operand pairs;
//  * cross-checks every operator against an independent spec at depth 1 and 2 (so the extraction
//    used by Verus did not change meaning) and provides replayable counterexamples;
//  * ASSERT fails exactly when its expression evaluates to zero.
use super::*;
use crate::elf::Elf;

#[path = "__verif_stubs.rs"]
mod stubs;

unsafe extern "C" {}

fn ctx() -> (OutputSectionMap<OutputRecordLayout>, OutputSections<'static, Elf>) {
    let sections = crate::output_section_id::__verif_c16_sections::empty_sections();
    let layouts = sections.new_section_map::<OutputRecordLayout>();
    (layouts, sections)
}

fn n(v: u64) -> Box<Expression<'static>> {
    Box::new(Expression::Number(v))
}

// GNU ld semantics (ldexp.c), written independently of the code under test
fn spec_bin(op: u8, a: u64, b: u64) -> Option<u64> {
    Some(match op {
        0 => a.wrapping_add(b),
        1 => a.wrapping_sub(b),
        2 => a.wrapping_mul(b),
        3 => {
            if b == 0 {
                return None;
            }
            // signed division, truncating toward zero, wrapping on i64::MIN / -1
            let (x, y) = (a as i64, b as i64);
            if x == i64::MIN && y == -1 { x as u64 } else { (x / y) as u64 }
        }
        4 => (a < b) as u64,
        5 => (a > b) as u64,
        6 => (a <= b) as u64,
        7 => (a >= b) as u64,
        8 => (a == b) as u64,
        9 => (a != b) as u64,
        10 => if a <= b { a } else { b },
        11 => if a >= b { a } else { b },
        12 => a & b,
        13 => a | b,
        14 => a ^ b,
        15 => a << (b % 64),
        16 => a >> (b % 64),
        17 => (a != 0 && b != 0) as u64,
        _ => (a != 0 || b != 0) as u64,
    })
}

fn mk_bin(op: u8, l: Box<Expression<'static>>, r: Box<Expression<'static>>) -> Expression<'static> {
    match op {
        0 => Expression::Add(l, r),
        1 => Expression::Subtract(l, r),
        2 => Expression::Multiply(l, r),
        3 => Expression::Divide(l, r),
        4 => Expression::LessThan(l, r),
        5 => Expression::GreaterThan(l, r),
        6 => Expression::LessEqual(l, r),
        7 => Expression::GreaterEqual(l, r),
        8 => Expression::Equal(l, r),
        9 => Expression::NotEqual(l, r),
        10 => Expression::Min(l, r),
        11 => Expression::Max(l, r),
        12 => Expression::BitwiseAnd(l, r),
        13 => Expression::BitwiseOr(l, r),
        14 => Expression::BitwiseXor(l, r),
        15 => Expression::LeftShift(l, r),
        16 => Expression::RightShift(l, r),
        17 => Expression::LogicalAnd(l, r),
        _ => Expression::LogicalOr(l, r),
    }
}
const NUM_BIN: u8 = 19;

fn eval(e: &Expression<'static>) -> Option<u64> {
    let (layouts, sections) = ctx();
    let r = evaluate_expression::<Elf>(e, &layouts, &sections, &|_| {}, &[]);
    let out = match &r {
        Ok(v) => Some(*v),
        Err(_) => None,
    };
    core::mem::forget(r);
    out
}

macro_rules! kani_eval_harness {
    ($name:ident, $body:block) => {
        #[kani::proof]
        #[kani::unwind(3)]
        #[kani::stub(alloc::fmt::format, stubs::verif_format_stub)]
        fn $name() $body
    };
}

kani_eval_harness!(c16_kani_divide_signed, {
    // discharges verif_signed_div's contract (rule X9) on the real Divide arm
    let a: u64 = kani::any();
    let b: u64 = kani::any();
    let e = Expression::Divide(n(a), n(b));
    assert!(eval(&e) == spec_bin(3, a, b), "division is not GNU ld's signed division");
});

kani_eval_harness!(c16_kani_shift_left_mod64, {
    let a: u64 = kani::any();
    let b: u64 = kani::any();
    assert!(eval(&Expression::LeftShift(n(a), n(b))) == Some(a << (b % 64)), "shift count not taken modulo 64");
});

kani_eval_harness!(c16_kani_shift_right_mod64, {
    let a: u64 = kani::any();
    let b: u64 = kani::any();
    assert!(eval(&Expression::RightShift(n(a), n(b))) == Some(a >> (b % 64)), "shift count not taken modulo 64");
});

kani_eval_harness!(c16_kani_every_binary_operator, {
    let op: u8 = kani::any();
    kani::assume(op < NUM_BIN && op != 2 && op != 3); // multiply/divide have their own harnesses (solver cost)
    let a: u64 = kani::any();
    let b: u64 = kani::any();
    assert!(eval(&mk_bin(op, n(a), n(b))) == spec_bin(op, a, b), "binary operator differs from GNU ld's semantics");
});

kani_eval_harness!(c16_kani_multiply_wraps, {
    let a: u64 = kani::any();
    let b: u64 = kani::any();
    assert!(eval(&Expression::Multiply(n(a), n(b))) == Some(a.wrapping_mul(b)));
});

kani_eval_harness!(c16_kani_unary_operators, {
    let a: u64 = kani::any();
    assert!(eval(&Expression::LogicalNot(n(a))) == Some((a == 0) as u64));
    assert!(eval(&Expression::BitwiseNot(n(a))) == Some(!a));
    assert!(eval(&Expression::Negate(n(a))) == Some(0u64.wrapping_sub(a)));
    // ALIGN(n) with '.' at 0: 0 for every n > 0, error for 0
    assert!(eval(&Expression::Align(n(a))) == if a == 0 { None } else { Some(0) });
    assert!(eval(&Expression::Number(a)) == Some(a));
    assert!(eval(&Expression::LocationCounter) == Some(0));
});

kani_eval_harness!(c16_kani_depth2_composition, {
    // op1(op2(a, b), c) and op1(a, op2(b, c)) for cheap operators: values compose
    let op1: u8 = kani::any();
    let op2: u8 = kani::any();
    kani::assume(op1 < NUM_BIN && op2 < NUM_BIN);
    kani::assume(op1 != 2 && op1 != 3 && op2 != 2 && op2 != 3);
    let (a, b, c): (u64, u64, u64) = (kani::any(), kani::any(), kani::any());
    let left = mk_bin(op1, Box::new(mk_bin(op2, n(a), n(b))), n(c));
    let expect_l = match spec_bin(op2, a, b) { Some(x) => spec_bin(op1, x, c), None => None };
    assert!(eval(&left) == expect_l);
    let right = mk_bin(op1, n(a), Box::new(mk_bin(op2, n(b), n(c))));
    let expect_r = match spec_bin(op2, b, c) { Some(x) => spec_bin(op1, a, x), None => None };
    assert!(eval(&right) == expect_r);
});

kani_eval_harness!(c16_kani_errors_and_short_circuit, {
    let a: u64 = kani::any();
    let div0 = || Box::new(Expression::Divide(n(a), n(0)));
    // an error in an evaluated operand is an error of the whole expression
    assert!(eval(&Expression::Add(div0(), n(1))) == None);
    assert!(eval(&Expression::Add(n(1), div0())) == None);
    assert!(eval(&Expression::LogicalNot(div0())) == None);
    // C short-circuit: the right operand is not evaluated when the left decides
    assert!(eval(&Expression::LogicalAnd(n(0), div0())) == Some(0));
    assert!(eval(&Expression::LogicalOr(n(1), div0())) == Some(1));
    assert!(eval(&Expression::LogicalAnd(n(1), div0())) == None);
    assert!(eval(&Expression::LogicalOr(n(0), div0())) == None);
});

// ASSERT fails exactly when its expression evaluates to zero
#[kani::proof]
#[kani::unwind(3)]
#[kani::stub(alloc::fmt::format, stubs::verif_format_stub)]
fn c16_kani_assert_fails_exactly_on_zero() {
    use crate::grouping::Group;
    use crate::grouping::SequencedLinkerScript;
    use crate::input_data::FileId;
    use crate::linker_script::AssertCommand;
    use crate::parsing::ProcessedLinkerScript;
    use crate::symbol_db::SymbolIdRange;
    let file = crate::input_data::__verif_c16_input::empty_input_file();
    let file: &'static crate::input_data::InputFile = Box::leak(Box::new(file));
    let a: u64 = kani::any();
    let b: u64 = kani::any();
    let script = SequencedLinkerScript {
        parsed: ProcessedLinkerScript {
            input: crate::input_data::InputRef { file, entry: None },
            symbol_defs: Vec::new(),
            assertions: vec![AssertCommand {
                expression: Expression::Subtract(n(a), n(b)),
                message: b"",
                remainder: b"",
            }],
            file_bytes: b"",
            memory_regions: Vec::new(),
        },
        symbol_id_range: SymbolIdRange::empty(),
        file_id: FileId::new(0, 0),
    };
    let group: Group<'static, Elf> = Group::LinkerScripts(vec![script]);
    let (layouts, sections) = ctx();
    let groups = [group];
    let r = evaluate_assertions::<Elf>(&groups, &layouts, &sections, &|_| {});
    let ok = r.is_ok();
    core::mem::forget(r);
    core::mem::forget(groups);
    assert!(ok == (a != b), "ASSERT must fail exactly when the expression is zero");
}

// vacuity canary (must fail)
kani_eval_harness!(c16_kani_canary_eval_reachable, {
    let a: u64 = kani::any();
    assert!(eval(&Expression::Add(n(a), n(1))) == Some(a), "canary: must fail");
});
