// ---- prelude for the Verus route of C16 (hand-written; everything here is either a spec, an
// ---- opaque stand-in type, or an explicitly listed assumption) ----

// Opaque stand-ins for context types the function only passes through (rule X3).
pub struct SectionLayoutsOpaque { pub p: u8 }
pub struct OutputSectionsOpaque { pub p: u8 }
pub struct WarningCallbackOpaque { pub p: u8 }
pub struct VerifError { pub p: u8 }
pub type Result<T> = core::result::Result<T, VerifError>;

// rule X5: error construction (message text is not part of the property)
#[verifier::external_body]
pub fn verif_error() -> VerifError { unimplemented!() }

// rule X6: opaque leaves -- NO ensures, so nothing is assumed about them
#[verifier::external_body]
pub fn verif_opaque_warn(cb: &WarningCallbackOpaque, name: &[u8]) { unimplemented!() }
#[verifier::external_body]
pub fn section_size(name: &[u8], l: &SectionLayoutsOpaque, o: &OutputSectionsOpaque) -> u64 { unimplemented!() }
#[verifier::external_body]
pub fn section_align(name: &[u8], l: &SectionLayoutsOpaque, o: &OutputSectionsOpaque) -> u64 { unimplemented!() }
#[verifier::external_body]
pub fn section_address(name: &[u8], l: &SectionLayoutsOpaque, o: &OutputSectionsOpaque) -> Result<u64> { unimplemented!() }
#[verifier::external_body]
pub fn verif_opaque_region_value(name: &[u8], which: u8) -> Result<u64> { unimplemented!() }

// ---- assumed specifications of std items (each restates the std documentation) ----
pub assume_specification[ <u64 as core::convert::From<bool>>::from ](b: bool) -> (r: u64)
    ensures r == (if b { 1u64 } else { 0u64 });
pub assume_specification[ u64::wrapping_neg ](a: u64) -> (r: u64)
    ensures r as int == (0x1_0000_0000_0000_0000int - a as int) % 0x1_0000_0000_0000_0000int;
// rule X9: `(l as i64).wrapping_div(r as i64) as u64` (Verus leaves out-of-range `as` casts
// unspecified).  The contract below is NOT trusted: it is discharged on the real code, bit-precisely
// and for all 2^128 operand pairs, by the Kani obligation c16_kani_divide_signed.
#[verifier::external_body]
pub fn verif_signed_div(a: u64, b: u64) -> (r: u64)
    requires b != 0,
    ensures r == sdiv64(a, b),
{ unimplemented!() }

// rule X9 (truncating `as u32` cast is unspecified in Verus); discharged on the real code by the
// Kani obligations c16_kani_shift_left_mod64 / c16_kani_shift_right_mod64
#[verifier::external_body]
pub fn verif_shl(a: u64, b: u64) -> (r: u64)
    ensures r == shl64(a, b % 64),
{ unimplemented!() }
#[verifier::external_body]
pub fn verif_shr(a: u64, b: u64) -> (r: u64)
    ensures r == shr64(a, b % 64),
{ unimplemented!() }

// ---- the specification: GNU ld's expression semantics (ldexp.c fold_binary/fold_unary), from the
// ---- property statement: 64-bit wrapping arithmetic, SIGNED division, unsigned comparisons
// ---- yielding 0/1, shift counts modulo 64, C short-circuit && ||, MIN/MAX unsigned, ALIGN at dot=0
pub open spec fn two64() -> int { 0x1_0000_0000_0000_0000int }

pub open spec fn wrap_u64(x: int) -> u64 { (x % two64()) as u64 }

pub open spec fn wrap_i64(x: int) -> int {
    let m = x % two64();
    if m >= 0x8000_0000_0000_0000int { m - two64() } else { m }
}

// C division truncates toward zero (Verus' int `/` is Euclidean)
pub open spec fn trunc_div(x: int, y: int) -> int
    recommends y != 0
{
    if x >= 0 && y > 0 { x / y }
    else if x < 0 && y > 0 { -((-x) / y) }
    else if x >= 0 && y < 0 { -(x / (-y)) }
    else { (-x) / (-y) }
}

pub open spec fn as_signed(a: u64) -> int {
    if a as int >= 0x8000_0000_0000_0000int { a as int - two64() } else { a as int }
}

pub open spec fn sdiv64(a: u64, b: u64) -> u64 {
    wrap_u64(trunc_div(as_signed(a), as_signed(b)))
}

// shift by a count already reduced modulo 64
pub open spec fn shl64(a: u64, n: u64) -> u64 { a << n }
pub open spec fn shr64(a: u64, n: u64) -> u64 { a >> n }

pub open spec fn b2u(b: bool) -> u64 { if b { 1 } else { 0 } }

pub open spec fn pure_expr(e: Expression) -> bool
    decreases e
{
    match e {
        Expression::Number(_) | Expression::LocationCounter => true,
        Expression::Symbol(_) | Expression::Sizeof(_) | Expression::Alignof(_)
        | Expression::Origin(_) | Expression::Length(_) | Expression::Addr(_)
        | Expression::Loadaddr(_) => false,
        Expression::Add(l, r) | Expression::Subtract(l, r) | Expression::Multiply(l, r)
        | Expression::Divide(l, r) | Expression::LessThan(l, r) | Expression::GreaterThan(l, r)
        | Expression::LessEqual(l, r) | Expression::GreaterEqual(l, r) | Expression::Equal(l, r)
        | Expression::NotEqual(l, r) | Expression::Min(l, r) | Expression::Max(l, r)
        | Expression::BitwiseAnd(l, r) | Expression::BitwiseOr(l, r) | Expression::BitwiseXor(l, r)
        | Expression::LeftShift(l, r) | Expression::RightShift(l, r)
        | Expression::LogicalAnd(l, r) | Expression::LogicalOr(l, r) => pure_expr(*l) && pure_expr(*r),
        Expression::Align(x) | Expression::LogicalNot(x) | Expression::BitwiseNot(x)
        | Expression::Negate(x) => pure_expr(*x),
    }
}

pub open spec fn both(a: Option<u64>, b: Option<u64>) -> bool { a is Some && b is Some }

pub open spec fn spec_eval(e: Expression) -> Option<u64>
    decreases e
{
    match e {
        Expression::Number(n) => Some(n),
        Expression::LocationCounter => Some(0u64),
        Expression::Symbol(_) | Expression::Sizeof(_) | Expression::Alignof(_)
        | Expression::Origin(_) | Expression::Length(_) | Expression::Addr(_)
        | Expression::Loadaddr(_) => None,
        Expression::Add(l, r) => if both(spec_eval(*l), spec_eval(*r)) {
            Some(wrap_u64(spec_eval(*l).unwrap() as int + spec_eval(*r).unwrap() as int)) } else { None },
        Expression::Subtract(l, r) => if both(spec_eval(*l), spec_eval(*r)) {
            Some(wrap_u64(spec_eval(*l).unwrap() as int - spec_eval(*r).unwrap() as int)) } else { None },
        Expression::Multiply(l, r) => if both(spec_eval(*l), spec_eval(*r)) {
            Some(wrap_u64(spec_eval(*l).unwrap() as int * spec_eval(*r).unwrap() as int)) } else { None },
        Expression::Divide(l, r) => if both(spec_eval(*l), spec_eval(*r)) && spec_eval(*r).unwrap() != 0 {
            Some(sdiv64(spec_eval(*l).unwrap(), spec_eval(*r).unwrap())) } else { None },
        Expression::LessThan(l, r) => if both(spec_eval(*l), spec_eval(*r)) {
            Some(b2u(spec_eval(*l).unwrap() < spec_eval(*r).unwrap())) } else { None },
        Expression::GreaterThan(l, r) => if both(spec_eval(*l), spec_eval(*r)) {
            Some(b2u(spec_eval(*l).unwrap() > spec_eval(*r).unwrap())) } else { None },
        Expression::LessEqual(l, r) => if both(spec_eval(*l), spec_eval(*r)) {
            Some(b2u(spec_eval(*l).unwrap() <= spec_eval(*r).unwrap())) } else { None },
        Expression::GreaterEqual(l, r) => if both(spec_eval(*l), spec_eval(*r)) {
            Some(b2u(spec_eval(*l).unwrap() >= spec_eval(*r).unwrap())) } else { None },
        Expression::Equal(l, r) => if both(spec_eval(*l), spec_eval(*r)) {
            Some(b2u(spec_eval(*l).unwrap() == spec_eval(*r).unwrap())) } else { None },
        Expression::NotEqual(l, r) => if both(spec_eval(*l), spec_eval(*r)) {
            Some(b2u(spec_eval(*l).unwrap() != spec_eval(*r).unwrap())) } else { None },
        Expression::Min(l, r) => if both(spec_eval(*l), spec_eval(*r)) {
            Some(if spec_eval(*l).unwrap() <= spec_eval(*r).unwrap() { spec_eval(*l).unwrap() } else { spec_eval(*r).unwrap() }) } else { None },
        Expression::Max(l, r) => if both(spec_eval(*l), spec_eval(*r)) {
            Some(if spec_eval(*l).unwrap() >= spec_eval(*r).unwrap() { spec_eval(*l).unwrap() } else { spec_eval(*r).unwrap() }) } else { None },
        Expression::BitwiseAnd(l, r) => if both(spec_eval(*l), spec_eval(*r)) {
            Some(spec_eval(*l).unwrap() & spec_eval(*r).unwrap()) } else { None },
        Expression::BitwiseOr(l, r) => if both(spec_eval(*l), spec_eval(*r)) {
            Some(spec_eval(*l).unwrap() | spec_eval(*r).unwrap()) } else { None },
        Expression::BitwiseXor(l, r) => if both(spec_eval(*l), spec_eval(*r)) {
            Some(spec_eval(*l).unwrap() ^ spec_eval(*r).unwrap()) } else { None },
        Expression::LeftShift(l, r) => if both(spec_eval(*l), spec_eval(*r)) {
            Some(shl64(spec_eval(*l).unwrap(), spec_eval(*r).unwrap() % 64)) } else { None },
        Expression::RightShift(l, r) => if both(spec_eval(*l), spec_eval(*r)) {
            Some(shr64(spec_eval(*l).unwrap(), spec_eval(*r).unwrap() % 64)) } else { None },
        // C semantics: the right operand is not evaluated when the left one decides
        Expression::LogicalAnd(l, r) => match spec_eval(*l) {
            None => None,
            Some(a) => if a == 0 { Some(0u64) } else { match spec_eval(*r) {
                None => None, Some(b) => Some(b2u(b != 0)) } },
        },
        Expression::LogicalOr(l, r) => match spec_eval(*l) {
            None => None,
            Some(a) => if a != 0 { Some(1u64) } else { match spec_eval(*r) {
                None => None, Some(b) => Some(b2u(b != 0)) } },
        },
        Expression::LogicalNot(x) => match spec_eval(*x) { None => None, Some(a) => Some(b2u(a == 0)) },
        Expression::BitwiseNot(x) => match spec_eval(*x) { None => None, Some(a) => Some(!a) },
        Expression::Negate(x) => match spec_eval(*x) { None => None, Some(a) => Some(wrap_u64(0 - a as int)) },
        // ALIGN(n) with the location counter at 0 is 0 for every n > 0; ALIGN(0) is an error
        Expression::Align(x) => match spec_eval(*x) { None => None, Some(n) => if n == 0 { None } else { Some(0u64) } },
    }
}

// ghost lemma used inside the Align arm (rule G: ghost insertion, like a loop invariant)
pub proof fn lemma_and_not_is_zero(x: u64)
    ensures x & !x == 0
{
    assert(x & !x == 0) by (bit_vector);
}
