// ---- spec sanity lemmas (document what the spec says on the cases the property names) ----
pub proof fn c16_spec_signed_division_examples()
    ensures
        // -8 / 2 == -4 (GNU ld; unsigned division would give 0x7ffffffffffffffc)
        sdiv64(0xffff_ffff_ffff_fff8u64, 2u64) == 0xffff_ffff_ffff_fffcu64,
        // -7 / 2 == -3 (truncation toward zero)
        sdiv64(0xffff_ffff_ffff_fff9u64, 2u64) == 0xffff_ffff_ffff_fffdu64,
        sdiv64(7u64, 0xffff_ffff_ffff_fffeu64) == 0xffff_ffff_ffff_fffdu64,
        sdiv64(12u64, 4u64) == 3u64,
{
}

// ---- vacuity guard: MUST FAIL (shows the spec is not trivially None / the contract not vacuous)
pub proof fn c16_canary_spec_is_not_trivial()
{
    assert(spec_eval(Expression::Divide(Box::new(Expression::Number(8)), Box::new(Expression::Number(2)))) == Some(0u64));
}
