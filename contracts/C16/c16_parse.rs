// C16, parser: C operator precedence and associativity of binary operators.
//
// Child module of libwild::linker_script.  The real parse_expression (winnow combinators) is run
// on every input of the shape   D op1 D op2 D   where D are the one-digit literals 1, 2, 3 and
// op1, op2 range over all 17 binary operator tokens wild accepts (symbolic choice).  Oracle: the
// precedence/associativity table of GNU ld's grammar (ld/ldgram.y: %left OROR; ANDAND; '|'; '^';
// '&'; EQ NE; '<' '>' LE GE; LSHIFT RSHIFT; '+' '-'; '*' '/'), which is C's.  Contract:
//   if wild accepts the input, the tree it builds groups the operands as that table says
//   ((1 op1 2) op2 3 when prec(op1) >= prec(op2), 1 op1 (2 op2 3) otherwise).
// Inputs wild rejects (two comparison operators in a row: its comparison level is
// non-associative) are outside "every expression wild accepts".
// BOUNDED: three operands, two operators.
use super::*;

const OPS: [&[u8]; 17] = [
    b"||", b"&&", b"|", b"^", b"&", b"==", b"!=", b"<", b">", b"<=", b">=", b"<<", b">>", b"+", b"-", b"*", b"/",
];

// ldgram.y precedence levels, loosest = 0
fn prec(k: usize) -> u8 {
    match k {
        0 => 0,          // ||
        1 => 1,          // &&
        2 => 2,          // |
        3 => 3,          // ^
        4 => 4,          // &
        5 | 6 => 5,      // == !=
        7..=10 => 6,     // < > <= >=
        11 | 12 => 7,    // << >>
        13 | 14 => 8,    // + -
        _ => 9,          // * /
    }
}

/// which operator (index into OPS) a binary node is, and its two children
fn node<'e, 'a>(e: &'e Expression<'a>) -> Option<(usize, &'e Expression<'a>, &'e Expression<'a>)> {
    Some(match e {
        Expression::LogicalOr(l, r) => (0, l, r),
        Expression::LogicalAnd(l, r) => (1, l, r),
        Expression::BitwiseOr(l, r) => (2, l, r),
        Expression::BitwiseXor(l, r) => (3, l, r),
        Expression::BitwiseAnd(l, r) => (4, l, r),
        Expression::Equal(l, r) => (5, l, r),
        Expression::NotEqual(l, r) => (6, l, r),
        Expression::LessThan(l, r) => (7, l, r),
        Expression::GreaterThan(l, r) => (8, l, r),
        Expression::LessEqual(l, r) => (9, l, r),
        Expression::GreaterEqual(l, r) => (10, l, r),
        Expression::LeftShift(l, r) => (11, l, r),
        Expression::RightShift(l, r) => (12, l, r),
        Expression::Add(l, r) => (13, l, r),
        Expression::Subtract(l, r) => (14, l, r),
        Expression::Multiply(l, r) => (15, l, r),
        Expression::Divide(l, r) => (16, l, r),
        _ => return None,
    })
}

fn is_num(e: &Expression<'_>, v: u64) -> bool {
    matches!(e, Expression::Number(n) if *n == v)
}

fn is_bitwise(k: usize) -> bool {
    k == 2 || k == 3 || k == 4
}
fn is_comparison(k: usize) -> bool {
    k >= 5 && k <= 10
}
/// Input class of known finding C16-bitwise-vs-comparison-precedence: a bitwise operator next to
/// a comparison operator.  wild deliberately gives & ^ | HIGHER precedence than the comparison
/// operators (its own unit tests test_bitwise_operators / test_unary_precedence assert that), GNU
/// ld and C give them LOWER precedence: `1 | 2 == 2` is 1 in GNU ld and 0 in wild.
fn in_known_finding_class(k1: usize, k2: usize) -> bool {
    (is_bitwise(k1) && is_comparison(k2)) || (is_comparison(k1) && is_bitwise(k2))
}

fn check(k1: usize, k2: usize) {
    // "1 op1 2 op2 3"
    let mut buf = [b' '; 16];
    let mut n = 0;
    buf[n] = b'1';
    n += 2;
    let mut i = 0;
    while i < OPS[k1].len() {
        buf[n] = OPS[k1][i];
        n += 1;
        i += 1;
    }
    n += 1;
    buf[n] = b'2';
    n += 2;
    let mut i = 0;
    while i < OPS[k2].len() {
        buf[n] = OPS[k2][i];
        n += 1;
        i += 1;
    }
    n += 1;
    buf[n] = b'3';
    n += 1;
    let mut input: &BStr = BStr::new(&buf[..n]);
    let Ok(tree) = parse_expression(&mut input) else {
        return; // rejected: outside "every expression wild accepts"
    };
    if !input.is_empty() {
        core::mem::forget(tree);
        return; // a prefix was parsed; the caller rejects trailing garbage
    }
    let Some((top, l, r)) = node(&tree) else {
        assert!(false, "three operands parsed to a non-binary node");
        return;
    };
    if prec(k1) >= prec(k2) {
        // left-associative / tighter first: (1 op1 2) op2 3
        assert!(top == k2, "operator precedence/associativity differs from C (expected the second operator at the root)");
        let inner = node(l);
        assert!(inner.is_some_and(|(k, a, b)| k == k1 && is_num(a, 1) && is_num(b, 2)) && is_num(r, 3), "operands grouped differently from C");
    } else {
        // 1 op1 (2 op2 3)
        assert!(top == k1, "operator precedence differs from C (expected the first operator at the root)");
        let inner = node(r);
        assert!(is_num(l, 1) && inner.is_some_and(|(k, a, b)| k == k2 && is_num(a, 2) && is_num(b, 3)), "operands grouped differently from C");
    }
    core::mem::forget(tree);
}

macro_rules! c16_parse_row {
    ($name:ident, $k1:expr) => {
        #[kani::proof]
        #[kani::unwind(20)]
        fn $name() {
            let k2: usize = kani::any();
            kani::assume(k2 < OPS.len());
            kani::assume(!in_known_finding_class($k1, k2));
            check($k1, k2);
        }
    };
}

// one obligation per first operator (keeps each CBMC run small and localises a failure)
c16_parse_row!(c16_parse_precedence_after_logical_or, 0);
c16_parse_row!(c16_parse_precedence_after_logical_and, 1);
c16_parse_row!(c16_parse_precedence_after_bit_or, 2);
c16_parse_row!(c16_parse_precedence_after_bit_xor, 3);
c16_parse_row!(c16_parse_precedence_after_bit_and, 4);
c16_parse_row!(c16_parse_precedence_after_eq, 5);
c16_parse_row!(c16_parse_precedence_after_lt, 7);
c16_parse_row!(c16_parse_precedence_after_shl, 11);
c16_parse_row!(c16_parse_precedence_after_add, 13);
c16_parse_row!(c16_parse_precedence_after_sub, 14);
c16_parse_row!(c16_parse_precedence_after_mul, 15);
c16_parse_row!(c16_parse_precedence_after_div, 16);

// twin restricted to the known finding's input class (expected to fail while the finding stands)
#[kani::proof]
#[kani::unwind(20)]
fn c16_parse_kf_bitwise_next_to_comparison() {
    let k1: usize = kani::any();
    let k2: usize = kani::any();
    kani::assume(k1 < OPS.len() && k2 < OPS.len());
    kani::assume(in_known_finding_class(k1, k2));
    check(k1, k2);
}

#[kani::proof]
#[kani::unwind(20)]
fn c16_parse_canary_accepts_mixed_operators() {
    // must fail: "1 + 2 * 3" is accepted and has '+' at the root
    let mut input: &BStr = BStr::new(b"1 + 2 * 3");
    let t = parse_expression(&mut input);
    let root_is_add = matches!(&t, Ok(Expression::Add(_, _)));
    core::mem::forget(t);
    assert!(!root_is_add, "canary");
}
