// Constructor for an empty InputFile (its fields are private to input_data); mirrors the
// cfg(test)-only InputFile::for_testing() of the repository.
pub(crate) fn empty_input_file() -> super::InputFile {
    super::InputFile {
        filename: std::path::PathBuf::new(),
        original_filename: std::path::PathBuf::new(),
        modifiers: crate::args::Modifiers::default(),
        data: None,
    }
}
