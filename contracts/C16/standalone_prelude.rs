// ---- Route S prelude (plain Rust stand-ins; assumptions: "the context values read have these
// ---- types" and the opaque leaves may return anything) ----
use std::convert::{TryFrom, TryInto};
use std::fmt::Display;

pub struct SectionLayoutsOpaque { pub p: u8 }
pub struct OutputSectionsOpaque { pub p: u8 }
pub struct WarningCallbackOpaque { pub p: u8 }
#[derive(Debug)]
pub struct VerifError { pub p: u8 }
pub type Result<T = (), E = VerifError> = core::result::Result<T, E>;

pub fn verif_error() -> VerifError { VerifError { p: 0 } }
pub fn verif_opaque_warn(_cb: &WarningCallbackOpaque, _name: &[u8]) {}
pub fn section_size(_n: &[u8], _l: &SectionLayoutsOpaque, _o: &OutputSectionsOpaque) -> u64 { kani::any() }
pub fn section_align(_n: &[u8], _l: &SectionLayoutsOpaque, _o: &OutputSectionsOpaque) -> u64 { kani::any() }
pub fn section_address(_n: &[u8], _l: &SectionLayoutsOpaque, _o: &OutputSectionsOpaque) -> Result<u64> {
    if kani::any() { Ok(kani::any()) } else { Err(verif_error()) }
}
pub fn verif_opaque_region_value(n: &[u8], _which: u8) -> Result<u64> {
    // a region named "err" does not exist (deterministic failing leaf for the error-propagation
    // obligations); any other lookup may return anything
    if n.len() == 3 && n[0] == b'e' { return Err(verif_error()); }
    if kani::any() { Ok(kani::any()) } else { Err(verif_error()) }
}

// error-context plumbing used by evaluate_assertions (message text is dropped)
pub trait Context<T> {
    fn with_context<F: FnOnce() -> String>(self, f: F) -> Result<T>;
}
impl<T> Context<T> for Result<T> {
    fn with_context<F: FnOnce() -> String>(self, _f: F) -> Result<T> { self }
}

// stand-ins with the field names evaluate_assertions reads
pub struct InputStandIn;
impl Display for InputStandIn {
    fn fmt(&self, _f: &mut std::fmt::Formatter<'_>) -> std::fmt::Result { Ok(()) }
}
pub struct ParsedStandIn<'data> {
    pub input: InputStandIn,
    pub assertions: Vec<AssertCommand<'data>>,
    pub file_bytes: &'data [u8],
    pub memory_regions: Vec<MemoryRegion<'data>>,
}
pub struct ScriptStandIn<'data> { pub parsed: ParsedStandIn<'data> }
pub enum Group<'data> {
    Other,
    LinkerScripts(Vec<ScriptStandIn<'data>>),
}
