// C15: linker-script input-section patterns match as in GNU ld -- wild's own pattern code.
//
// Child module of libwild::layout_rules.  Functions under contract:
//   glob_match::analyze_glob_pattern, glob_match::unescape_pattern,
//   SectionRule::new (classification into Exact / Glob), SectionRule::matches for Exact rules,
//   SectionNameMatcher::prefix_bytes, section_name_prefix_hash.
// Oracle: POSIX fnmatch(3) without FNM_PATHNAME/FNM_NOESCAPE as GNU ld calls it
// (ldlang.c: fnmatch(pattern, name, 0)), restricted to patterns with no unescaped
// metacharacter, where it is: "remove each escaping backslash, compare bytes".
// ASSUMED (not executed: glob::Pattern and hashbrown are out of Kani's reach here): the glob
// crate implements fnmatch for the patterns handed to it, and HashTable::find returns an entry
// with the probed hash for which the predicate holds.  "First matching description wins" is
// therefore NOT decided here.
// BOUNDED: patterns of at most PLEN bytes, names of at most NLEN bytes.
use super::*;
use crate::glob_match::GlobPatternType;
use crate::glob_match::analyze_glob_pattern;
use crate::glob_match::unescape_pattern;

#[path = "__verif_stubs.rs"]
mod stubs;

const PLEN: usize = 6;

fn is_meta(c: u8) -> bool {
    c == b'*' || c == b'?' || c == b'[' || c == b']'
}

/// (has_unescaped_meta, has_escape, unescaped pattern, its length) -- POSIX: a backslash quotes
/// the next character; a trailing backslash stands for itself.
fn spec_scan(p: &[u8]) -> (bool, bool, [u8; PLEN], usize) {
    let mut meta = false;
    let mut esc = false;
    let mut out = [0u8; PLEN];
    let mut n = 0;
    let mut i = 0;
    while i < p.len() {
        let c = p[i];
        if c == b'\\' {
            esc = true;
            if i + 1 < p.len() {
                out[n] = p[i + 1];
                n += 1;
                i += 2;
                continue;
            }
            out[n] = c;
            n += 1;
        } else {
            if is_meta(c) {
                meta = true;
            }
            out[n] = c;
            n += 1;
        }
        i += 1;
    }
    (meta, esc, out, n)
}

// All obligations below use CONCRETE pattern / name lengths (one obligation per length): a slice
// of symbolic length through memchr / Cow / slice comparison did not finish under CBMC in 15 min
// (measured), concrete lengths take seconds to a few minutes.

// (a) classification
fn classify(p: &[u8]) {
    let (meta, esc, _, _) = spec_scan(p);
    let t = analyze_glob_pattern(p);
    if meta {
        assert!(matches!(t, GlobPatternType::Star | GlobPatternType::NonStar), "a pattern with an unescaped metacharacter is not treated as a glob");
        // Star exactly when an unescaped '*' occurs
        let mut star = false;
        let mut i = 0;
        while i < p.len() {
            if p[i] == b'\\' { i += 2; continue; }
            if p[i] == b'*' { star = true; }
            i += 1;
        }
        assert!(matches!(t, GlobPatternType::Star) == star, "Star/NonStar split differs from 'contains an unescaped *'");
    } else if esc {
        assert!(matches!(t, GlobPatternType::EscapedExact), "a pattern whose only special characters are escapes must be EscapedExact");
    } else {
        assert!(matches!(t, GlobPatternType::Exact), "a pattern without special characters must be Exact");
    }
}

// (a') unescaping
fn unescape(p: &[u8]) {
    let (_, _, want, n) = spec_scan(p);
    let got = unescape_pattern(p);
    assert!(got.len() == n, "unescaped length differs");
    let i: usize = kani::any();
    kani::assume(i < n);
    assert!(got[i] == want[i], "unescaped byte differs");
}

// The literal-pattern obligations must never reach the glob compiler (the pattern has no
// unescaped metacharacter).  compile_glob_pattern is stubbed by a function that fails the
// obligation if it is ever called: this keeps the glob crate's parser (which does not finish under
// CBMC on symbolic bytes) out of the formula without assuming anything about it.
fn glob_compiler_unreachable(_token: &[u8]) -> Result<glob::Pattern, &str> {
    panic!("the glob compiler was invoked for a pattern without unescaped metacharacters");
}

// likewise the glob matcher: an exact rule must never consult it
fn glob_matcher_unreachable(_p: &glob::Pattern, _s: &str) -> bool {
    panic!("the glob matcher was consulted for an exact rule");
}

// (b) rules built from patterns without unescaped metacharacters match exactly as fnmatch does
fn literal_rule(p: &'static [u8], name: &[u8]) {
    let (meta, _, want, n) = spec_scan(p);
    kani::assume(!meta);
    let rule = match SectionRule::new(p, None, SectionRuleOutcome::Discard) {
        Ok(r) => r,
        Err(e) => {
            core::mem::forget(e);
            assert!(false, "a syntactically valid literal pattern was rejected");
            return;
        }
    };
    assert!(matches!(rule.name_matcher, SectionNameMatcher::Exact(_)), "literal pattern not compiled to an exact matcher");
    // fnmatch(p, name, 0) for a metacharacter-free p: name equals the unescaped pattern
    let mut equal = name.len() == n;
    let mut i = 0;
    while i < name.len() {
        if i < n && want[i] != name[i] {
            equal = false;
        }
        i += 1;
    }
    assert!(rule.matches(name, None) == equal, "exact rule matches differently from fnmatch");
    // the hash-table key of the rule is the unescaped pattern
    let pb = rule.name_matcher.prefix_bytes();
    assert!(pb.len() == n, "prefix bytes of an exact rule are not the unescaped pattern");
    let j: usize = kani::any();
    kani::assume(j < n);
    assert!(pb[j] == want[j]);
    // (c) key lemma: with a 4-byte key, every matching name probes the same key
    if n >= 4 {
        assert!(section_name_prefix_hash(pb).is_some(), "from_rules' expect would panic for this rule");
        if rule.matches(name, None) {
            assert!(name.len() >= 4 && name[0] == pb[0] && name[1] == pb[1] && name[2] == pb[2] && name[3] == pb[3],
                "a matching name probes a different hash bucket than the rule was inserted under");
        }
    }
    core::mem::forget(rule);
}

macro_rules! c15_len_harnesses {
    ($classify:ident, $unescape:ident, $plen:expr) => {
        #[kani::proof]
        #[kani::unwind(8)]
        #[kani::stub(std::arch::x86_64::__cpuid_count, stubs::verif_cpuid_stub)]
        fn $classify() {
            let p: [u8; $plen] = kani::any();
            classify(&p[..]);
        }
        #[kani::proof]
        #[kani::unwind(8)]
        fn $unescape() {
            let p: [u8; $plen] = kani::any();
            unescape(&p[..]);
        }
    };
}
c15_len_harnesses!(c15_analyze_classifies_patterns_of_2_bytes, c15_unescape_patterns_of_2_bytes, 2);
c15_len_harnesses!(c15_analyze_classifies_patterns_of_4_bytes, c15_unescape_patterns_of_4_bytes, 4);
c15_len_harnesses!(c15_analyze_classifies_patterns_of_5_bytes, c15_unescape_patterns_of_5_bytes, 5);

macro_rules! c15_literal_harness {
    ($name:ident, $plen:expr, $nlen:expr) => {
        #[kani::proof]
        #[kani::unwind(10)]
        #[kani::stub(std::arch::x86_64::__cpuid_count, stubs::verif_cpuid_stub)]
        #[kani::stub(alloc::fmt::format, stubs::verif_format_stub)]
        #[kani::stub(crate::glob_match::compile_glob_pattern, glob_compiler_unreachable)]
        #[kani::stub(glob::Pattern::matches, glob_matcher_unreachable)]
        fn $name() {
            let p: &'static [u8; $plen] = Box::leak(Box::new(kani::any()));
            let name: [u8; $nlen] = kani::any();
            if $plen < 4 {
                // known finding C15-short-pattern: complement of its input class
                let (_, _, _, n) = spec_scan(&p[..]);
                kani::assume(n >= 4);
            }
            literal_rule(&p[..], &name[..]);
        }
    };
}
c15_literal_harness!(c15_literal_rule_4_byte_pattern_4_byte_name, 4, 4);
c15_literal_harness!(c15_literal_rule_5_byte_pattern_4_byte_name, 5, 4);
c15_literal_harness!(c15_literal_rule_5_byte_pattern_5_byte_name, 5, 5);
c15_literal_harness!(c15_literal_rule_4_byte_pattern_5_byte_name, 4, 5);

// twin restricted to the known finding's input class: patterns shorter than 4 bytes after
// unescaping have no hash key -> from_rules panics (`expect`), the rule can never be used.
#[kani::proof]
#[kani::unwind(10)]
#[kani::stub(std::arch::x86_64::__cpuid_count, stubs::verif_cpuid_stub)]
#[kani::stub(alloc::fmt::format, stubs::verif_format_stub)]
#[kani::stub(crate::glob_match::compile_glob_pattern, glob_compiler_unreachable)]
fn c15_kf_short_patterns_have_a_hash_key() {
    let p: &'static [u8; 3] = Box::leak(Box::new(kani::any()));
    let (meta, _, _, _) = spec_scan(&p[..]);
    kani::assume(!meta);
    let Ok(rule) = SectionRule::new(&p[..], None, SectionRuleOutcome::Discard) else { return };
    let ok = section_name_prefix_hash(rule.name_matcher.prefix_bytes()).is_some();
    core::mem::forget(rule);
    assert!(ok, "pattern shorter than 4 bytes: SectionRules::from_rules panics (Prefixes of length less than 4 not yet supported)");
}

// section_name_prefix_hash: defined exactly for names of >= 4 bytes and depends only on them.
// The two names are built from ONE symbolic 4-byte prefix (two independently symbolic names
// assumed equal on their first four bytes make CBMC prove the equivalence of two multiplier
// circuits, which did not finish in 15 min - measured).
macro_rules! c15_hash_harness {
    ($name:ident, $la:expr, $lb:expr) => {
        #[kani::proof]
        #[kani::unwind(10)]
        fn $name() {
            let prefix: [u8; 4] = kani::any();
            let mut a: [u8; $la] = kani::any();
            let mut b: [u8; $lb] = kani::any();
            let mut i = 0;
            while i < 4 {
                if i < $la { a[i] = prefix[i]; }
                if i < $lb { b[i] = prefix[i]; }
                i += 1;
            }
            let ha = section_name_prefix_hash(&a[..]);
            let hb = section_name_prefix_hash(&b[..]);
            assert!(ha.is_some() == ($la >= 4) && hb.is_some() == ($lb >= 4));
            if $la >= 4 && $lb >= 4 {
                assert!(ha == hb, "names with equal 4-byte prefixes hash differently");
            }
        }
    };
}
c15_hash_harness!(c15_prefix_hash_names_of_3_and_4_bytes, 3, 4);
c15_hash_harness!(c15_prefix_hash_names_of_4_and_6_bytes, 4, 6);

#[kani::proof]
#[kani::unwind(10)]
#[kani::stub(std::arch::x86_64::__cpuid_count, stubs::verif_cpuid_stub)]
#[kani::stub(alloc::fmt::format, stubs::verif_format_stub)]
#[kani::stub(crate::glob_match::compile_glob_pattern, glob_compiler_unreachable)]
#[kani::stub(glob::Pattern::matches, glob_matcher_unreachable)]
fn c15_canary_exact_rule_matches_something() {
    let p: &'static [u8; 5] = Box::leak(Box::new(kani::any()));
    let (meta, esc, _, n) = spec_scan(&p[..]);
    kani::assume(!meta && esc && n >= 4);
    let Ok(rule) = SectionRule::new(&p[..], None, SectionRuleOutcome::Discard) else { return };
    let nbuf: [u8; 4] = kani::any();
    let r = rule.matches(&nbuf[..], None);
    core::mem::forget(rule);
    assert!(!r, "canary: an escaped-exact rule must be able to match");
}
