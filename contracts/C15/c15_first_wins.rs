// C15: "the first matching input-section description wins" -- SectionRules::from_rules +
// SectionRules::lookup, the real code, over rules that need no glob (Exact and Prefix matchers).
//
// Child module of libwild::layout_rules.
//
// hashbrown's open-addressing table is out of CBMC's reach (SSE group probing over a symbolic
// hash); its three entry points used here are replaced by CONTRACT STUBS that state what wild
// relies on and nothing else:
//   HashTable::with_capacity(n)        -> an empty table
//   HashTable::insert_unique(h, v, _)  -> appends (h, v) to the table's entry sequence
//   HashTable::find(h, eq)             -> the EARLIEST-INSERTED entry with hash h for which eq holds
// The last line is the ASSUMED contract of the dependency (true of hashbrown as long as nothing
// is removed: equal hashes share a probe sequence and an insertion takes its first free slot; it
// is not part of hashbrown's documented API -- wild relies on it, and so does this obligation).
// Everything else -- the order in which from_rules feeds the table, the key it files each rule
// under, the key lookup probes, SectionRule::matches, the fall-through outcomes -- is wild's code
// and is executed.
use super::*;
use hashbrown::hash_table::OccupiedEntry;

#[path = "__verif_stubs.rs"]
mod stubs;

const CAP: usize = 4;
static mut ENTRIES: [(u64, *mut u8); CAP] = [(0, core::ptr::null_mut()); CAP];
static mut COUNT: usize = 0;

fn table_with_capacity<T>(_capacity: usize) -> HashTable<T> {
    HashTable::new()
}

// Kani 0.68 accepts a stub for a generic METHOD only when the stub has the same split between
// parent (impl) generics and own generics, hence an inherent impl on a carrier type; and the stub
// attributes name the table through layout_rules' own import (super::HashTable) because the bare
// crate name resolves to another hashbrown version of the dependency graph.
struct TableContract<T, A>(core::marker::PhantomData<(T, A)>);

impl<T, A: allocator_api2::alloc::Allocator> TableContract<T, A> {
fn insert_unique(
    table: &mut HashTable<T, A>,
    hash: u64,
    value: T,
    _hasher: impl Fn(&T) -> u64,
) -> OccupiedEntry<'_, T, A> {
    unsafe {
        assert!(COUNT < CAP, "harness table capacity");
        ENTRIES[COUNT] = (hash, Box::into_raw(Box::new(value)) as *mut u8);
        COUNT += 1;
        // The entry handle is dropped by the caller without being used; it has no Drop impl.
        let words: [*mut HashTable<T, A>; 2] = [table as *mut _, table as *mut _];
        core::ptr::read(&words as *const _ as *const OccupiedEntry<'_, T, A>)
    }
}

fn find(
    _table: &HashTable<T, A>,
    hash: u64,
    mut eq: impl FnMut(&T) -> bool,
) -> Option<&T> {
    unsafe {
        let mut i = 0;
        while i < COUNT {
            let (h, p) = ENTRIES[i];
            if h == hash {
                let r = &*(p as *const T);
                if eq(r) {
                    return Some(r);
                }
            }
            i += 1;
        }
        None
    }
}
}

// hash_bytes (foldhash over the 4-byte prefix) is replaced by an UNINTERPRETED FUNCTION: the first
// call with a given 4-byte argument picks an arbitrary u64, later calls with the same argument
// return the same value.  Every deterministic hash function -- wild's real one included, with
// whatever collisions it has -- is an instance, so the obligation proved is strictly more general
// than the code; what is given up is only the concrete bit pattern (64x64 folded multiplies whose
// equality CBMC does not decide in minutes).  The stub also pins the contract "from_rules and
// lookup hash exactly four bytes".
static mut HASH_MEMO: [([u8; 4], u64); CAP] = [([0; 4], 0); CAP];
static mut HASH_N: usize = 0;

fn hash_bytes_uninterpreted(bytes: &[u8]) -> u64 {
    assert!(bytes.len() == 4, "the rule table is keyed by something other than a 4-byte prefix");
    let k = [bytes[0], bytes[1], bytes[2], bytes[3]];
    unsafe {
        let mut i = 0;
        while i < HASH_N {
            if HASH_MEMO[i].0 == k {
                return HASH_MEMO[i].1;
            }
            i += 1;
        }
        assert!(HASH_N < CAP, "harness memo capacity");
        let v: u64 = kani::any();
        HASH_MEMO[HASH_N] = (k, v);
        HASH_N += 1;
        v
    }
}

// Exact and Prefix rules without a file pattern must never consult the glob matcher.
fn glob_matcher_unreachable(_p: &glob::Pattern, _s: &str) -> bool {
    panic!("the glob matcher was consulted for an exact / prefix rule");
}

#[derive(Debug)]
struct Hdr;
impl crate::platform::SectionHeader for Hdr {
    fn is_alloc(&self) -> bool { true }
    fn is_writable(&self) -> bool { false }
    fn is_executable(&self) -> bool { false }
    fn is_tls(&self) -> bool { false }
    fn is_merge_section(&self) -> bool { false }
    fn is_strings(&self) -> bool { false }
    fn should_retain(&self) -> bool { false }
    fn should_exclude(&self) -> bool { false }
    fn is_group(&self) -> bool { false }
    fn is_note(&self) -> bool { false }
    fn is_prog_bits(&self) -> bool { true }
    fn is_no_bits(&self) -> bool { false }
}

fn spec_matches(prefix: bool, pat: &[u8], name: &[u8]) -> bool {
    if prefix {
        if name.len() < pat.len() {
            return false;
        }
    } else if name.len() != pat.len() {
        return false;
    }
    let mut i = 0;
    while i < pat.len() {
        if name[i] != pat[i] {
            return false;
        }
        i += 1;
    }
    true
}

/// Two rules in script order (kinds and lengths concrete per obligation, all bytes symbolic), one
/// probe: the outcome is that of the first rule in SCRIPT order that matches, otherwise the
/// no-rule outcome.  (Symbolic rule KINDS in one obligation exhaust CBMC's memory -- measured --
/// so there is one obligation per kind pair.)
fn first_wins<const LA: usize, const LB: usize, const LN: usize>(a_prefix: bool, b_prefix: bool) {
    let pa: &'static [u8; LA] = Box::leak(Box::new(kani::any()));
    let pb: &'static [u8; LB] = Box::leak(Box::new(kani::any()));
    let oa = SectionRuleOutcome::Section(SectionOutputInfo::regular(output_section_id::TEXT));
    let ob = SectionRuleOutcome::Section(SectionOutputInfo::regular(output_section_id::DATA));
    let ra = if a_prefix { SectionRule::prefix(&pa[..], oa) } else { SectionRule::exact(&pa[..], oa) };
    let rb = if b_prefix { SectionRule::prefix(&pb[..], ob) } else { SectionRule::exact(&pb[..], ob) };
    let rules = [ra, rb];
    let map = SectionRules::from_rules(&rules);
    let name: [u8; LN] = kani::any();
    let got = map.lookup(&name[..], None, &Hdr);
    let want = if spec_matches(a_prefix, &pa[..], &name[..]) {
        oa
    } else if spec_matches(b_prefix, &pb[..], &name[..]) {
        ob
    } else {
        SectionRuleOutcome::Custom
    };
    core::mem::forget(map);
    core::mem::forget(rules);
    assert!(got == want, "lookup did not return the outcome of the first matching rule in script order");
}

macro_rules! c15_first_wins_harness {
    ($name:ident, $ap:expr, $la:expr, $bp:expr, $lb:expr, $ln:expr) => {
        #[kani::proof]
        #[kani::unwind(10)]
        #[kani::stub(std::arch::x86_64::__cpuid_count, stubs::verif_cpuid_stub)]
        #[kani::stub(alloc::fmt::format, stubs::verif_format_stub)]
        #[kani::stub(crate::hash::hash_bytes, hash_bytes_uninterpreted)]
        #[kani::stub(glob::Pattern::matches, glob_matcher_unreachable)]
        #[kani::stub(super::HashTable::with_capacity, table_with_capacity)]
        #[kani::stub(super::HashTable::insert_unique, TableContract::insert_unique)]
        #[kani::stub(super::HashTable::find, TableContract::find)]
        fn $name() {
            first_wins::<$la, $lb, $ln>($ap, $bp);
        }
    };
}
c15_first_wins_harness!(c15_first_rule_wins_prefix4_then_exact5_name5, true, 4, false, 5, 5);
c15_first_wins_harness!(c15_first_rule_wins_exact5_then_prefix4_name5, false, 5, true, 4, 5);
c15_first_wins_harness!(c15_first_rule_wins_exact5_then_exact5_name5, false, 5, false, 5, 5);
c15_first_wins_harness!(c15_first_rule_wins_prefix4_then_prefix5_name6, true, 4, true, 5, 6);
c15_first_wins_harness!(c15_first_rule_wins_prefix5_then_prefix4_name6, true, 5, true, 4, 6);
c15_first_wins_harness!(c15_first_rule_wins_exact4_then_exact5_name5, false, 4, false, 5, 5);

#[kani::proof]
#[kani::unwind(10)]
#[kani::stub(std::arch::x86_64::__cpuid_count, stubs::verif_cpuid_stub)]
#[kani::stub(alloc::fmt::format, stubs::verif_format_stub)]
#[kani::stub(crate::hash::hash_bytes, hash_bytes_uninterpreted)]
#[kani::stub(glob::Pattern::matches, glob_matcher_unreachable)]
#[kani::stub(super::HashTable::with_capacity, table_with_capacity)]
#[kani::stub(super::HashTable::insert_unique, TableContract::insert_unique)]
#[kani::stub(super::HashTable::find, TableContract::find)]
fn c15_canary_second_rule_can_win() {
    let pa: &'static [u8; 4] = Box::leak(Box::new(kani::any()));
    let pb: &'static [u8; 5] = Box::leak(Box::new(kani::any()));
    let oa = SectionRuleOutcome::Section(SectionOutputInfo::regular(output_section_id::TEXT));
    let ob = SectionRuleOutcome::Section(SectionOutputInfo::regular(output_section_id::DATA));
    let rules = [SectionRule::exact(&pa[..], oa), SectionRule::exact(&pb[..], ob)];
    let map = SectionRules::from_rules(&rules);
    let name: [u8; 5] = kani::any();
    let got = map.lookup(&name[..], None, &Hdr);
    core::mem::forget(map);
    core::mem::forget(rules);
    assert!(got != ob, "canary: the second rule must be able to win");
}
