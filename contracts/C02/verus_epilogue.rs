// ---- top-level lemma: folding `consider` over any candidate sequence and calling `best` yields
// ---- the ELF rule's choice.  Induction on the sequence (all lengths, no bound). ----
pub fn c02_fold_then_best(cands: &Vec<Cand>) -> (r: Option<SymbolId>)
    ensures is_best(cands@, r),
{
    let mut sel = SymbolPrioritySelector::new();
    let mut k: usize = 0;
    while k < cands.len()
        invariant
            k <= cands.len(),
            repr(sel, cands@.subrange(0, k as int)),
        decreases cands.len() - k,
    {
        let c = cands[k];
        proof {
            assert(cands@.subrange(0, k as int).push(c) =~= cands@.subrange(0, k as int + 1));
        }
        sel.consider(c.0, c.1);
        k += 1;
    }
    proof {
        assert(cands@.subrange(0, k as int) =~= cands@);
    }
    sel.best()
}

// spec sanity: the rule on the cases the property names
pub proof fn c02_spec_examples(a: SymbolId, b: SymbolId, c: SymbolId)
    ensures
        // strong beats an earlier, larger common and an earlier weak
        is_best(seq![(a, SymbolStrength::Weak), (b, SymbolStrength::Common(100)), (c, SymbolStrength::Strong)], Some(c)),
        // largest common beats weak; earliest among equals
        is_best(seq![(a, SymbolStrength::Weak), (b, SymbolStrength::Common(8)), (c, SymbolStrength::Common(8))], Some(b)),
        // undefined never wins
        is_best(seq![(a, SymbolStrength::Undefined)], None::<SymbolId>),
{
    let s1 = seq![(a, SymbolStrength::Weak), (b, SymbolStrength::Common(100)), (c, SymbolStrength::Strong)];
    assert(first_strong_at(s1, 2));
    let s2 = seq![(a, SymbolStrength::Weak), (b, SymbolStrength::Common(8)), (c, SymbolStrength::Common(8))];
    assert(max_common_at(s2, 1));
    assert(no_strong(s2));
}

// vacuity guard: MUST FAIL (a later equal common must not win)
pub proof fn c02_canary_spec_is_not_trivial(a: SymbolId, b: SymbolId)
    requires a != b,
{
    assert(is_best(seq![(a, SymbolStrength::Common(8)), (b, SymbolStrength::Common(8))], Some(b)));
}
