// C02, one level above the selector: the real select_symbol loop.
//
// Child module of libwild::symbol_db.  select_symbol(symbol_db, per_symbol_flags, first, alts,
// resolved) is run unmodified.  What it asks of its context is answered as follows:
//   * per_symbol_flags            - a real PerSymbolFlags table with symbolic DYNAMIC bits;
//   * symbol_db.symbol_strength   - #[kani::stub]: returns the symbolic strength the harness chose
//     for that symbol id (the real one reads the parsed object files);
//   * symbol_db.is_in_comdat_group - #[kani::stub]: symbolic bit per symbol id;
//   * symbol_db.db.args.allow_multiple_definitions() - real method on an ElfArgs in
//     nondeterministic storage whose `allow_multiple_definitions` field is initialised (symbolic);
//   * symbol_name_for_display / file / file_id_for_symbol (only used to word the duplicate-symbol
//     error) - #[kani::stub]s returning dummies; alloc::fmt::format stubbed.
// Contract, from the property statement (C = candidates in command-line order = first, alts...):
//   let O = the non-dynamic candidates (objects), in order.
//   (a) duplicate strong: if two candidates of O are Strong and (one of the first two... precisely:
//       the first Strong and a later Strong) are not both in COMDAT groups and multiple
//       definitions are not allowed  ==> Err;
//   (b) otherwise Ok(id) and
//       - if O has a Strong: id is the first Strong of O;
//       - else if O has a Common: id is the earliest among the largest Commons of O;
//       - else if O has a Weak/GnuUnique: id is the first of them;
//       - else (only shared-library or unloaded definitions): id is the first candidate of C that
//         is not Undefined, or `first` if there is none;
//       hence a shared-library (dynamic) definition never overrides any object definition.
// BOUNDED: at most N candidates.
use super::*;
use crate::value_flags::PerSymbolFlags;

#[path = "__verif_stubs.rs"]
mod stubs;

use crate::value_flags::ValueFlags;

const N: usize = 4;

// per-harness oracle tables (Kani runs one harness per process)
static mut STRENGTH_KIND: [u8; N] = [0; N];
static mut STRENGTH_SIZE: [u64; N] = [0; N];
static mut IN_COMDAT: [bool; N] = [false; N];

fn strength_of(i: usize) -> SymbolStrength {
    let (k, s) = unsafe { (STRENGTH_KIND[i], STRENGTH_SIZE[i]) };
    match k {
        0 => SymbolStrength::Undefined,
        1 => SymbolStrength::Weak,
        2 => SymbolStrength::GnuUnique,
        3 => SymbolStrength::Common(s),
        _ => SymbolStrength::Strong,
    }
}

fn stub_symbol_strength<'data, 'db, P: Platform>(
    _this: &AtomicSymbolDb<'data, 'db, P>,
    symbol_id: SymbolId,
    _resolved: &[ResolvedGroup<'data, P>],
) -> SymbolStrength
where
    'data: 'data,
    'db: 'db,
{
    strength_of(symbol_id.as_usize())
}

fn stub_is_in_comdat_group<'data, 'db, P: Platform>(
    _this: &AtomicSymbolDb<'data, 'db, P>,
    symbol_id: SymbolId,
    _resolved: &[ResolvedGroup<'data, P>],
) -> bool
where
    'data: 'data,
    'db: 'db,
{
    unsafe { IN_COMDAT[symbol_id.as_usize()] }
}

fn stub_symbol_name_for_display<'data, 'db, P: Platform>(
    _this: &AtomicSymbolDb<'data, 'db, P>,
    _symbol_id: SymbolId,
) -> SymbolNameDisplay<'data>
where
    'data: 'data,
    'db: 'db,
{
    SymbolNameDisplay { name: None, demangle: false }
}

fn stub_file_id_for_symbol<'data, 'db, P: Platform>(_this: &AtomicSymbolDb<'data, 'db, P>, _symbol_id: SymbolId) -> FileId
where
    'data: 'data,
    'db: 'db,
{
    FileId::new(0, 0)
}

fn stub_file<'data, 'db, P: Platform>(_this: &'db AtomicSymbolDb<'data, 'db, P>, _file_id: FileId) -> SequencedInput<'db, 'data, P>
where
    'data: 'data,
    'db: 'db,
{
    // only handed to format_args! (format is stubbed, nothing is read)
    let storage: &'static core::mem::MaybeUninit<crate::parsing::SyntheticSymbols> = Box::leak(Box::new(core::mem::MaybeUninit::uninit()));
    SequencedInput::SyntheticSymbols(unsafe { &*storage.as_ptr() })
}

fn stub_format(_args: core::fmt::Arguments<'_>) -> String {
    String::new()
}

fn is_weakish(s: SymbolStrength) -> bool {
    matches!(s, SymbolStrength::Weak | SymbolStrength::GnuUnique)
}

fn run(n: usize) {
    // ---- symbolic candidates 0..n (id i is the i-th on the command line)
    let kinds: [u8; N] = kani::any();
    let sizes: [u64; N] = kani::any();
    let comdat: [bool; N] = kani::any();
    let dynamic: [bool; N] = kani::any();
    let mut i = 0;
    while i < N {
        kani::assume(kinds[i] <= 4);
        i += 1;
    }
    unsafe {
        STRENGTH_KIND = kinds;
        STRENGTH_SIZE = sizes;
        IN_COMDAT = comdat;
    }
    let mut flags = PerSymbolFlags { flags: Vec::with_capacity(N) };
    let mut i = 0;
    while i < N {
        flags.flags.push(if dynamic[i] { ValueFlags::DYNAMIC.raw() } else { ValueFlags::empty().raw() });
        i += 1;
    }
    let atomic_flags = flags.borrow_atomic();
    // ---- context: args.allow_multiple_definitions symbolic, everything else arbitrary
    let allow_multiple: bool = kani::any();
    let args_storage: &'static mut core::mem::MaybeUninit<crate::args::elf::ElfArgs> = Box::leak(Box::new(core::mem::MaybeUninit::uninit()));
    unsafe {
        core::ptr::addr_of_mut!((*args_storage.as_mut_ptr()).allow_multiple_definitions).write(allow_multiple);
    }
    let db_storage: &'static mut core::mem::MaybeUninit<SymbolDb<'static, crate::elf::Elf>> = Box::leak(Box::new(core::mem::MaybeUninit::uninit()));
    unsafe {
        core::ptr::addr_of_mut!((*db_storage.as_mut_ptr()).args).write(&*args_storage.as_ptr());
    }
    let adb = core::mem::ManuallyDrop::new(AtomicSymbolDb { db: unsafe { &mut *db_storage.as_mut_ptr() }, definitions: Vec::new() });
    let alts_all = [SymbolId::from_usize(1), SymbolId::from_usize(2), SymbolId::from_usize(3)];
    let r = select_symbol::<crate::elf::Elf>(&adb, &atomic_flags, SymbolId::from_usize(0), &alts_all[..n - 1], &[]);
    let got: Option<usize> = match &r {
        Ok(id) => Some(id.as_usize()),
        Err(_) => None,
    };
    core::mem::forget(r);

    // ---- the ELF rule, written directly from the property statement
    let mut first_strong: Option<usize> = None;
    let mut dup_error = false;
    let mut best_common: Option<(u64, usize)> = None;
    let mut first_weak: Option<usize> = None;
    let mut first_defined: Option<usize> = None;
    let mut i = 0;
    while i < N {
        if i < n {
            let s = strength_of(i);
            if first_defined.is_none() && s != SymbolStrength::Undefined {
                first_defined = Some(i);
            }
            if !dynamic[i] {
                match s {
                    SymbolStrength::Strong => match first_strong {
                        None => first_strong = Some(i),
                        Some(e) => {
                            if !(comdat[e] && comdat[i]) && !allow_multiple {
                                dup_error = true;
                            }
                        }
                    },
                    SymbolStrength::Common(sz) => match best_common {
                        None => best_common = Some((sz, i)),
                        Some((bs, _)) => {
                            if sz > bs {
                                best_common = Some((sz, i));
                            }
                        }
                    },
                    SymbolStrength::Weak | SymbolStrength::GnuUnique => {
                        if first_weak.is_none() {
                            first_weak = Some(i);
                        }
                    }
                    SymbolStrength::Undefined => {}
                }
            }
        }
        i += 1;
    }
    if dup_error {
        assert!(got.is_none(), "two strong definitions outside COMDAT groups were accepted although multiple definitions are not allowed");
        return;
    }
    let want = if let Some(s) = first_strong {
        s
    } else if let Some((_, c)) = best_common {
        c
    } else if let Some(w) = first_weak {
        w
    } else if let Some(d) = first_defined {
        d
    } else {
        0
    };
    assert!(got.is_some(), "an error was reported although the ELF rules select a definition");
    assert!(got == Some(want), "the selected definition differs from the one the ELF rules select");
    // consequence stated in the property: a shared-library definition never overrides an object's
    if first_strong.is_some() || best_common.is_some() || first_weak.is_some() {
        assert!(!dynamic[got.unwrap()], "a shared-library definition overrode a definition from an object");
    }
}

macro_rules! c02_select_harness {
    ($name:ident, $n:expr) => {
        #[kani::proof]
        #[kani::unwind(7)]
        #[kani::stub(alloc::fmt::format, stub_format)]
        #[kani::stub(AtomicSymbolDb::symbol_strength, stub_symbol_strength)]
        #[kani::stub(AtomicSymbolDb::is_in_comdat_group, stub_is_in_comdat_group)]
        #[kani::stub(AtomicSymbolDb::symbol_name_for_display, stub_symbol_name_for_display)]
        #[kani::stub(AtomicSymbolDb::file_id_for_symbol, stub_file_id_for_symbol)]
        #[kani::stub(AtomicSymbolDb::file, stub_file)]
        fn $name() {
            run($n);
        }
    };
}

c02_select_harness!(c02_select_symbol_follows_the_elf_rules_4_candidates, 4);
c02_select_harness!(c02_select_symbol_follows_the_elf_rules_2_candidates, 2);

#[kani::proof]
#[kani::unwind(7)]
#[kani::stub(alloc::fmt::format, stub_format)]
#[kani::stub(AtomicSymbolDb::symbol_strength, stub_symbol_strength)]
#[kani::stub(AtomicSymbolDb::is_in_comdat_group, stub_is_in_comdat_group)]
#[kani::stub(AtomicSymbolDb::symbol_name_for_display, stub_symbol_name_for_display)]
#[kani::stub(AtomicSymbolDb::file_id_for_symbol, stub_file_id_for_symbol)]
#[kani::stub(AtomicSymbolDb::file, stub_file)]
fn c02_canary_select_symbol_error_and_dynamic_paths_reachable() {
    // must fail: with 2 candidates both "Err" and "picked the second" are reachable
    let kinds: [u8; N] = kani::any();
    kani::assume(kinds[0] <= 4 && kinds[1] <= 4 && kinds[2] == 0 && kinds[3] == 0);
    unsafe {
        STRENGTH_KIND = kinds;
        STRENGTH_SIZE = [1, 1, 0, 0];
        IN_COMDAT = [false; N];
    }
    let mut flags = PerSymbolFlags { flags: vec![ValueFlags::empty().raw(), ValueFlags::empty().raw()] };
    let atomic_flags = flags.borrow_atomic();
    let args_storage: &'static mut core::mem::MaybeUninit<crate::args::elf::ElfArgs> = Box::leak(Box::new(core::mem::MaybeUninit::uninit()));
    unsafe { core::ptr::addr_of_mut!((*args_storage.as_mut_ptr()).allow_multiple_definitions).write(false); }
    let db_storage: &'static mut core::mem::MaybeUninit<SymbolDb<'static, crate::elf::Elf>> = Box::leak(Box::new(core::mem::MaybeUninit::uninit()));
    unsafe { core::ptr::addr_of_mut!((*db_storage.as_mut_ptr()).args).write(&*args_storage.as_ptr()); }
    let adb = core::mem::ManuallyDrop::new(AtomicSymbolDb { db: unsafe { &mut *db_storage.as_mut_ptr() }, definitions: Vec::new() });
    let alts = [SymbolId::from_usize(1)];
    let r = select_symbol::<crate::elf::Elf>(&adb, &atomic_flags, SymbolId::from_usize(0), &alts[..], &[]);
    let got = match &r { Ok(id) => Some(id.as_usize()), Err(_) => None };
    core::mem::forget(r);
    assert!(got.is_some(), "canary: the duplicate-strong error must be reachable");
    assert!(got != Some(1), "canary: picking the second candidate must be reachable");
}

// SymbolStrength::of on an ELF symbol-table entry, for every st_info / st_shndx / st_size
// (gABI: STB_WEAK = 2, STB_GNU_UNIQUE = 10, SHN_COMMON = 0xfff2): a weak symbol is Weak whatever
// its section, a common symbol carries its size (the "largest common wins" key), a GNU-unique
// symbol is GnuUnique, everything else that is defined is Strong.
#[kani::proof]
#[kani::unwind(20)]
#[kani::stub(alloc::fmt::format, stubs::verif_format_stub)]
fn c02_symbol_strength_of_reads_binding_and_common_size() {
    let mut sym: crate::elf::SymtabEntry = unsafe { core::mem::zeroed() };
    sym.st_info = kani::any();
    sym.st_shndx.set(object::LittleEndian, kani::any());
    let size: u64 = kani::any();
    sym.st_size.set(object::LittleEndian, size);
    // a common symbol's st_value is its alignment: wild accepts powers of two up to 64 KiB
    // (Alignment::new, C29); a COMMON symbol with any other st_value is outside this obligation
    // (wild then treats it as an ordinary definition - observed by reading, not claimed).
    let align: u64 = kani::any();
    sym.st_value.set(object::LittleEndian, align);
    let shndx = sym.st_shndx.get(object::LittleEndian);
    // ... and a COMMON symbol whose size rounded up to that alignment does not fit in 64 bits is
    // malformed (rejected since fix 8812840; C22's symbol-table obligation pins that down)
    kani::assume(shndx != 0xfff2 || (align.is_power_of_two() && align <= 0x10000 && size <= u64::MAX - (align - 1)));
    let got = SymbolStrength::of(&sym);
    let bind = sym.st_info >> 4;
    let want = if bind == 2 {
        SymbolStrength::Weak
    } else if shndx == 0xfff2 {
        SymbolStrength::Common(size)
    } else if bind == 10 {
        SymbolStrength::GnuUnique
    } else {
        SymbolStrength::Strong
    };
    assert!(got == want, "symbol strength differs from the ELF binding / SHN_COMMON rules");
}
