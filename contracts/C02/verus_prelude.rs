// ---- C02 prelude: abstract view of the selector = the sequence of candidates considered so far,
// ---- in command-line order; spec of the ELF selection rule from the property statement ----

pub assume_specification<T>[ Option::<T>::or ](a: Option<T>, b: Option<T>) -> (r: Option<T>)
    ensures r == (if a is Some { a } else { b });

pub type Cand = (SymbolId, SymbolStrength);

pub open spec fn is_strong(c: Cand) -> bool { c.1 is Strong }
pub open spec fn is_weakish(c: Cand) -> bool { c.1 is Weak || c.1 is GnuUnique }
pub open spec fn is_common(c: Cand) -> bool { c.1 is Common }
pub open spec fn common_size(c: Cand) -> u64 { c.1->Common_0 }

// "the first definition in command-line order wins among equals"
pub open spec fn first_strong_at(s: Seq<Cand>, i: int) -> bool {
    0 <= i < s.len() && is_strong(s[i]) && forall|j: int| 0 <= j < i ==> !is_strong(s[j])
}
pub open spec fn first_weak_at(s: Seq<Cand>, i: int) -> bool {
    0 <= i < s.len() && is_weakish(s[i]) && forall|j: int| 0 <= j < i ==> !is_weakish(s[j])
}
// "the largest common", earliest among equally large ones
pub open spec fn max_common_at(s: Seq<Cand>, i: int) -> bool {
    0 <= i < s.len() && is_common(s[i])
    && (forall|j: int| 0 <= j < s.len() && is_common(s[j]) ==> common_size(s[j]) <= common_size(s[i]))
    && (forall|j: int| 0 <= j < i && is_common(s[j]) ==> common_size(s[j]) < common_size(s[i]))
}
pub open spec fn no_strong(s: Seq<Cand>) -> bool { forall|j: int| 0 <= j < s.len() ==> !is_strong(s[j]) }
pub open spec fn no_common(s: Seq<Cand>) -> bool { forall|j: int| 0 <= j < s.len() ==> !is_common(s[j]) }
pub open spec fn no_weak(s: Seq<Cand>) -> bool { forall|j: int| 0 <= j < s.len() ==> !is_weakish(s[j]) }

// The ELF rule of the property: a strong definition beats a common one, the largest common beats
// weak ones, the first in command-line order wins among equals, an `Undefined` candidate (member of
// an archive that was not loaded) never wins.
pub open spec fn is_best(s: Seq<Cand>, r: Option<SymbolId>) -> bool {
    (exists|i: int| first_strong_at(s, i) && r == Some(s[i].0))
    || (no_strong(s) && exists|i: int| max_common_at(s, i) && r == Some(s[i].0))
    || (no_strong(s) && no_common(s) && exists|i: int| first_weak_at(s, i) && r == Some(s[i].0))
    || (no_strong(s) && no_common(s) && no_weak(s) && r is None)
}

// representation invariant: the three fields are the three winners of the view
pub closed spec fn repr(sel: SymbolPrioritySelector, s: Seq<Cand>) -> bool {
    (match sel.first_strong {
        Some(id) => exists|i: int| first_strong_at(s, i) && s[i].0 == id,
        None => no_strong(s),
    })
    && (match sel.max_common {
        Some(p) => exists|i: int| max_common_at(s, i) && s[i].0 == p.1 && common_size(s[i]) == p.0,
        None => no_common(s),
    })
    && (match sel.first_weak {
        Some(id) => exists|i: int| first_weak_at(s, i) && s[i].0 == id,
        None => no_weak(s),
    })
}

// ghost lemma (rule G): how the three "winner" predicates evolve when one candidate is appended
pub proof fn lemma_push(s: Seq<Cand>, c: Cand)
    ensures
        forall|i: int| 0 <= i < s.len() ==> #[trigger] s.push(c)[i] == s[i],
        s.push(c)[s.len() as int] == c,
        s.push(c).len() == s.len() + 1,
        forall|i: int| #[trigger] first_strong_at(s, i) ==> first_strong_at(s.push(c), i),
        (no_strong(s) && is_strong(c)) ==> first_strong_at(s.push(c), s.len() as int),
        (no_strong(s) && !is_strong(c)) ==> no_strong(s.push(c)),
        forall|i: int| #[trigger] first_weak_at(s, i) ==> first_weak_at(s.push(c), i),
        (no_weak(s) && is_weakish(c)) ==> first_weak_at(s.push(c), s.len() as int),
        (no_weak(s) && !is_weakish(c)) ==> no_weak(s.push(c)),
        forall|i: int| (#[trigger] max_common_at(s, i) && (!is_common(c) || common_size(c) <= common_size(s[i])))
            ==> max_common_at(s.push(c), i),
        forall|i: int| (#[trigger] max_common_at(s, i) && is_common(c) && common_size(c) > common_size(s[i]))
            ==> max_common_at(s.push(c), s.len() as int),
        (no_common(s) && is_common(c)) ==> max_common_at(s.push(c), s.len() as int),
        (no_common(s) && !is_common(c)) ==> no_common(s.push(c)),
{
    let t = s.push(c);
    assert forall|i: int| #[trigger] first_strong_at(s, i) implies first_strong_at(t, i) by {
        assert(t[i] == s[i]);
        assert forall|j: int| 0 <= j < i implies !is_strong(t[j]) by { assert(t[j] == s[j]); }
    }
    assert forall|i: int| #[trigger] first_weak_at(s, i) implies first_weak_at(t, i) by {
        assert(t[i] == s[i]);
        assert forall|j: int| 0 <= j < i implies !is_weakish(t[j]) by { assert(t[j] == s[j]); }
    }
    if no_strong(s) {
        assert forall|j: int| 0 <= j < s.len() implies !is_strong(t[j]) by { assert(t[j] == s[j]); }
    }
    if no_weak(s) {
        assert forall|j: int| 0 <= j < s.len() implies !is_weakish(t[j]) by { assert(t[j] == s[j]); }
    }
    if no_common(s) {
        assert forall|j: int| 0 <= j < s.len() implies !is_common(t[j]) by { assert(t[j] == s[j]); }
    }
    assert forall|i: int| (#[trigger] max_common_at(s, i) && (!is_common(c) || common_size(c) <= common_size(s[i])))
        implies max_common_at(t, i) by {
        assert(t[i] == s[i]);
        assert forall|j: int| 0 <= j < t.len() && is_common(t[j]) implies common_size(t[j]) <= common_size(t[i]) by {
            if j < s.len() { assert(t[j] == s[j]); }
        }
        assert forall|j: int| 0 <= j < i && is_common(t[j]) implies common_size(t[j]) < common_size(t[i]) by {
            assert(t[j] == s[j]);
        }
    }
    assert forall|i: int| (#[trigger] max_common_at(s, i) && is_common(c) && common_size(c) > common_size(s[i]))
        implies max_common_at(t, s.len() as int) by {
        assert forall|j: int| 0 <= j < t.len() && is_common(t[j]) implies common_size(t[j]) <= common_size(c) by {
            if j < s.len() { assert(t[j] == s[j]); }
        }
        assert forall|j: int| 0 <= j < s.len() && is_common(t[j]) implies common_size(t[j]) < common_size(c) by {
            assert(t[j] == s[j]);
        }
    }
}
