// C02, Route K (bounded replay vehicle + SymbolStrength::of contract) on the real crate.
// The unbounded statement is the Verus obligation c02_fold_then_best; this harness replays it for
// up to 4 candidates with symbolic strengths/sizes so that a violation comes with concrete inputs.
use super::*;

const N: usize = 4;

fn any_strength() -> SymbolStrength {
    let k: u8 = kani::any();
    kani::assume(k < 5);
    match k {
        0 => SymbolStrength::Undefined,
        1 => SymbolStrength::Weak,
        2 => SymbolStrength::GnuUnique,
        3 => SymbolStrength::Strong,
        _ => SymbolStrength::Common(kani::any()),
    }
}

// the ELF rule, executable form (brute force over the candidate array)
fn rule(c: &[(SymbolId, SymbolStrength)], n: usize) -> Option<SymbolId> {
    let mut i = 0;
    while i < n {
        if matches!(c[i].1, SymbolStrength::Strong) {
            return Some(c[i].0);
        }
        i += 1;
    }
    let mut best: Option<(u64, SymbolId)> = None;
    let mut i = 0;
    while i < n {
        if let SymbolStrength::Common(sz) = c[i].1 {
            match best {
                Some((b, _)) if sz <= b => {}
                _ => best = Some((sz, c[i].0)),
            }
        }
        i += 1;
    }
    if let Some((_, id)) = best {
        return Some(id);
    }
    let mut i = 0;
    while i < n {
        if matches!(c[i].1, SymbolStrength::Weak | SymbolStrength::GnuUnique) {
            return Some(c[i].0);
        }
        i += 1;
    }
    None
}

#[kani::proof]
#[kani::unwind(6)]
fn c02_kani_selector_matches_rule_upto_4() {
    let n: usize = kani::any();
    kani::assume(n <= N);
    let mut c = [(SymbolId(0), SymbolStrength::Undefined); N];
    let mut i = 0;
    while i < N {
        c[i] = (SymbolId(i as u32 + 1), any_strength());
        i += 1;
    }
    let mut sel = SymbolPrioritySelector::new();
    let mut i = 0;
    while i < n {
        sel.consider(c[i].0, c[i].1);
        i += 1;
    }
    assert!(sel.best() == rule(&c, n), "selector disagrees with the ELF rule");
}

#[kani::proof]
#[kani::unwind(6)]
fn c02_kani_canary_selector_reachable() {
    let mut sel = SymbolPrioritySelector::new();
    sel.consider(SymbolId(1), any_strength());
    assert!(sel.best().is_none(), "canary: must fail");
}
