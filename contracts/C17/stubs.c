/* Environment contract for C17 (assumed, listed in the evidence): the C library / kernel may
 * return anything.  Values are published through globals that the Kani harness makes symbolic.
 * waitpid may be called several times (retry loops): call i gets the i-th prepared outcome. */
#include <stddef.h>
#include <stdint.h>

#define VERIF_MAX_CALLS 4
int verif_fread_result;                 /* number of items fread returns (0 or 1) */
int verif_wp_ret[VERIF_MAX_CALLS];      /* return value of the i-th waitpid call */
int verif_wp_status[VERIF_MAX_CALLS];   /* status word stored by the i-th call when it succeeds */
int verif_wp_errno[VERIF_MAX_CALLS];    /* errno set by the i-th call when it fails */
int verif_wp_calls;                     /* number of waitpid calls made */
int verif_errno;
int verif_close_calls;

typedef struct verif_FILE { int fd; } verif_FILE;
static verif_FILE verif_stream;

void *fdopen(int fd, const char *mode) { (void)mode; verif_stream.fd = fd; return &verif_stream; }
size_t fread(void *ptr, size_t size, size_t n, void *stream) {
    (void)stream; (void)size; (void)n;
    if (verif_fread_result == 1) { ((unsigned char *)ptr)[0] = 'X'; return 1; }
    return 0;
}
int close(int fd) { (void)fd; verif_close_calls++; return 0; }
int waitpid(int pid, int *status, int options) {
    (void)pid; (void)options;
    int i = verif_wp_calls < VERIF_MAX_CALLS ? verif_wp_calls : VERIF_MAX_CALLS - 1;
    verif_wp_calls++;
    if (verif_wp_ret[i] >= 0) { *status = verif_wp_status[i]; } else { verif_errno = verif_wp_errno[i]; }
    return verif_wp_ret[i];
}
int *__errno_location(void) { return &verif_errno; }
