/* Environment contract for C17 (assumed, listed in the evidence): the C library / kernel may
 * return anything.  Values are published through globals that the Kani harness makes symbolic. */
#include <stddef.h>
#include <stdint.h>

int verif_fread_result;      /* number of items fread returns (harness constrains to 0 or 1) */
int verif_wait_status;       /* status word waitpid stores */
int verif_waitpid_result;    /* return value of waitpid */
int verif_waitpid_called;
int verif_close_calls;

typedef struct verif_FILE { int fd; } verif_FILE;
static verif_FILE verif_stream;

void *fdopen(int fd, const char *mode) { (void)mode; verif_stream.fd = fd; return &verif_stream; }
size_t fread(void *ptr, size_t size, size_t n, void *stream) {
    (void)stream; (void)size; (void)n;
    if (verif_fread_result == 1) { ((unsigned char *)ptr)[0] = 'X'; return 1; }
    return 0;
}
int close(int fd) { (void)fd; verif_close_calls++; return 0; }
int waitpid(int pid, int *status, int options) {
    (void)pid; (void)options;
    verif_waitpid_called = 1;
    if (verif_waitpid_result >= 0) { *status = verif_wait_status; }
    return verif_waitpid_result;
}
