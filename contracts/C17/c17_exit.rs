// C17: the exit status reflects whether the output was written (parent side of fork mode).
//
// Child module of libwild::subprocess (feature "fork").  The libc calls made by
// wait_for_child_done are linked against contracts/C17/stubs.c (-Z c-ffi --c-lib), which lets the
// OS return anything: fread delivers the success byte or not, waitpid stores ANY status word or
// fails.  The wait-status macros are specified here from POSIX / glibc <bits/waitstatus.h>, not
// taken from the libc crate, whose WIFEXITED/WEXITSTATUS/... are executed as part of the code
// under verification.
use super::*;

unsafe extern "C" {
    static mut verif_fread_result: c_int;
    static mut verif_wait_status: c_int;
    static mut verif_waitpid_result: c_int;
    static mut verif_waitpid_called: c_int;
}

// POSIX wait status decoding (glibc bits/waitstatus.h)
fn spec_wifexited(s: i32) -> bool {
    s & 0x7f == 0
}
fn spec_wexitstatus(s: i32) -> i32 {
    (s >> 8) & 0xff
}
fn spec_wifsignaled(s: i32) -> bool {
    (((s & 0x7f) + 1) as i8 >> 1) > 0
}

fn run(byte_arrives: bool, status: i32, waitpid_ret: i32) -> (i32, bool) {
    unsafe {
        verif_fread_result = if byte_arrives { 1 } else { 0 };
        verif_wait_status = status;
        verif_waitpid_result = waitpid_ret;
        verif_waitpid_called = 0;
    }
    let fds: [c_int; 2] = [kani::any(), kani::any()];
    let pid: pid_t = kani::any();
    kani::assume(pid > 0);
    let code = wait_for_child_done(&fds, pid);
    (code, unsafe { verif_waitpid_called } != 0)
}

// The property: "status 0 only if the output file was completely written ... non-zero if the
// forked worker is killed by a signal at any point".  The worker sends the byte only after
// Linker::run returned Ok (output written and unmapped); a worker that exits normally with code 0
// without sending the byte did so deliberately (it never reaches exit(0) on an error path).
#[kani::proof]
fn c17_zero_only_after_success_byte_or_clean_exit() {
    let byte_arrives: bool = kani::any();
    let status: i32 = kani::any();
    let waitpid_ret: i32 = kani::any();
    let (code, _) = run(byte_arrives, status, waitpid_ret);
    if code == 0 {
        assert!(
            byte_arrives || (waitpid_ret >= 0 && spec_wifexited(status) && spec_wexitstatus(status) == 0),
            "exit status 0 although the worker neither reported success nor exited cleanly"
        );
    }
}

#[kani::proof]
fn c17_killed_by_any_signal_is_nonzero() {
    let status: i32 = kani::any();
    kani::assume(spec_wifsignaled(status)); // SIGKILL, SIGSEGV, SIGABRT (panic=abort, OOM killer) ...
    let (code, waited) = run(false, status, kani::any());
    assert!(waited, "the worker must be reaped when no success byte arrives");
    assert!(code != 0, "worker killed by a signal but the parent would exit 0");
    // the value is later passed to std::process::exit: only the low 8 bits reach the OS
    assert!(code & 0xff != 0, "exit code is 0 modulo 256");
}

#[kani::proof]
fn c17_worker_exit_code_is_propagated() {
    let status: i32 = kani::any();
    kani::assume(spec_wifexited(status));
    let (code, _) = run(false, status, 0);
    assert!(code == spec_wexitstatus(status), "worker's exit code not propagated");
    assert!((code == 0) == (spec_wexitstatus(status) == 0));
}

#[kani::proof]
fn c17_success_byte_means_zero_without_waiting() {
    // the parent may exit 0 as soon as the byte arrives (the worker shuts down in the background)
    let (code, waited) = run(true, kani::any(), kani::any());
    assert!(code == 0 && !waited);
}

#[kani::proof]
fn c17_waitpid_failure_is_nonzero() {
    let w: i32 = kani::any();
    kani::assume(w < 0);
    let (code, _) = run(false, kani::any(), w);
    assert!(code & 0xff != 0, "waitpid failed and no byte arrived, but the parent would exit 0");
}

fn exit_stub(code: i32) -> ! {
    assert!(code & 0xff != 0, "report_error_and_exit exits with status 0");
    kani::assume(false);
    loop {}
}

fn report_error_stub(_e: &crate::error::Error) {}

#[kani::proof]
#[kani::stub(std::process::exit, exit_stub)]
#[kani::stub(crate::error::report_error, report_error_stub)]
fn c17_report_error_and_exit_is_nonzero() {
    let e = crate::error::Error::with_message(String::new());
    crate::error::report_error_and_exit(&e);
}

// vacuity canaries (must fail)
#[kani::proof]
fn c17_canary_zero_reachable() {
    let (code, _) = run(kani::any(), kani::any(), kani::any());
    assert!(code != 0, "canary: must fail");
}

#[kani::proof]
fn c17_canary_nonzero_reachable() {
    let (code, _) = run(kani::any(), kani::any(), kani::any());
    assert!(code == 0, "canary: must fail");
}
