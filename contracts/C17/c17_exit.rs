// C17: the exit status reflects whether the output was written (parent side of fork mode).
//
// Child module of libwild::subprocess (feature "fork").  The libc calls made by
// wait_for_child_done are linked against contracts/C17/stubs.c (-Z c-ffi --c-lib), which lets the
// OS return anything: fread delivers the success byte or not; each waitpid call (the code may
// retry) stores ANY status word or fails with ANY errno.  The wait-status macros are specified
// here from POSIX / glibc <bits/waitstatus.h>, not taken from the libc crate, whose
// WIFEXITED/WEXITSTATUS/... are executed as part of the code under verification.
use super::*;

const MAX_CALLS: usize = 4;
const EINTR: i32 = 4;

unsafe extern "C" {
    static mut verif_fread_result: c_int;
    static mut verif_wp_ret: [c_int; MAX_CALLS];
    static mut verif_wp_status: [c_int; MAX_CALLS];
    static mut verif_wp_errno: [c_int; MAX_CALLS];
    static mut verif_wp_calls: c_int;
}

// POSIX wait status decoding (glibc bits/waitstatus.h)
fn spec_wifexited(s: i32) -> bool {
    s & 0x7f == 0
}
fn spec_wexitstatus(s: i32) -> i32 {
    (s >> 8) & 0xff
}
fn spec_wifsignaled(s: i32) -> bool {
    (((s & 0x7f) + 1) as i8 >> 1) > 0
}

struct Os {
    byte: bool,
    ret: [i32; MAX_CALLS],
    status: [i32; MAX_CALLS],
    errno: [i32; MAX_CALLS],
}

fn any_os() -> Os {
    let os = Os { byte: kani::any(), ret: kani::any(), status: kani::any(), errno: kani::any() };
    // a retry loop must terminate: the kernel does not interrupt the wait more than twice in a row
    kani::assume(!(os.ret[2] < 0 && os.errno[2] == EINTR));
    kani::assume(!(os.ret[3] < 0 && os.errno[3] == EINTR));
    os
}

// returns (exit code, number of waitpid calls made)
fn run(os: &Os) -> (i32, usize) {
    unsafe {
        verif_fread_result = if os.byte { 1 } else { 0 };
        verif_wp_ret = os.ret;
        verif_wp_status = os.status;
        verif_wp_errno = os.errno;
        verif_wp_calls = 0;
    }
    let fds: [c_int; 2] = [kani::any(), kani::any()];
    let pid: pid_t = kani::any();
    kani::assume(pid > 0);
    let code = wait_for_child_done(&fds, pid);
    let calls = unsafe { verif_wp_calls } as usize;
    (code, calls)
}

// The property: "status 0 only if the output file was completely written ... non-zero if the
// forked worker is killed by a signal at any point".  The worker sends the byte only after
// Linker::run returned Ok (output written and unmapped); a worker that exits normally with code 0
// without sending the byte did so deliberately (it never reaches exit(0) on an error path).
#[kani::proof]
#[kani::unwind(6)]
fn c17_zero_only_after_success_byte_or_clean_exit() {
    let os = any_os();
    let (code, calls) = run(&os);
    kani::assume(calls <= MAX_CALLS);
    if code & 0xff == 0 {
        let mut clean_exit_seen = false;
        let mut i = 0;
        while i < MAX_CALLS {
            if i < calls && os.ret[i] >= 0 && spec_wifexited(os.status[i]) && spec_wexitstatus(os.status[i]) == 0 {
                clean_exit_seen = true;
            }
            i += 1;
        }
        assert!(
            os.byte || clean_exit_seen,
            "exit status 0 although the worker neither reported success nor was seen to exit cleanly"
        );
    }
}

#[kani::proof]
#[kani::unwind(6)]
fn c17_killed_by_any_signal_is_nonzero() {
    let mut os = any_os();
    os.byte = false;
    let (code, calls) = run(&os);
    assert!(calls >= 1, "the worker must be reaped when no success byte arrives");
    kani::assume(calls <= MAX_CALLS);
    let last = calls - 1;
    // the wait that finally succeeded says: killed by a signal (SIGKILL/OOM, SIGSEGV, SIGABRT ...)
    if os.ret[last] >= 0 && spec_wifsignaled(os.status[last]) {
        // the value is later passed to std::process::exit: only the low 8 bits reach the OS
        assert!(code & 0xff != 0, "worker killed by a signal but the parent would exit 0");
    }
}

#[kani::proof]
#[kani::unwind(6)]
fn c17_worker_exit_code_is_propagated() {
    let mut os = any_os();
    os.byte = false;
    let (code, calls) = run(&os);
    kani::assume(calls >= 1 && calls <= MAX_CALLS);
    let last = calls - 1;
    if os.ret[last] >= 0 && spec_wifexited(os.status[last]) {
        assert!(code == spec_wexitstatus(os.status[last]), "worker's exit code not propagated");
    }
}

#[kani::proof]
#[kani::unwind(6)]
fn c17_success_byte_means_zero_without_waiting() {
    // the parent may exit 0 as soon as the byte arrives (the worker shuts down in the background)
    let mut os = any_os();
    os.byte = true;
    let (code, calls) = run(&os);
    assert!(code == 0 && calls == 0);
}

#[kani::proof]
#[kani::unwind(6)]
fn c17_waitpid_failure_is_nonzero() {
    // every wait fails (ECHILD because SIGCHLD is ignored, EINVAL, ...): the worker's fate is unknown
    let mut os = any_os();
    os.byte = false;
    let (code, calls) = run(&os);
    kani::assume(calls <= MAX_CALLS);
    let mut all_failed = true;
    let mut i = 0;
    while i < MAX_CALLS {
        if i < calls && os.ret[i] >= 0 {
            all_failed = false;
        }
        i += 1;
    }
    if all_failed {
        assert!(code & 0xff != 0, "waitpid failed and no byte arrived, but the parent would exit 0");
    }
}

fn exit_stub(code: i32) -> ! {
    assert!(code & 0xff != 0, "report_error_and_exit exits with status 0");
    kani::assume(false);
    loop {}
}

fn report_error_stub(_e: &crate::error::Error) {}

#[kani::proof]
#[kani::stub(std::process::exit, exit_stub)]
#[kani::stub(crate::error::report_error, report_error_stub)]
fn c17_report_error_and_exit_is_nonzero() {
    let e = crate::error::Error::with_message(String::new());
    crate::error::report_error_and_exit(&e);
}

// vacuity canaries (must fail)
#[kani::proof]
#[kani::unwind(6)]
fn c17_canary_zero_reachable() {
    let os = any_os();
    let (code, _) = run(&os);
    assert!(code != 0, "canary: must fail");
}

#[kani::proof]
#[kani::unwind(6)]
fn c17_canary_nonzero_reachable() {
    let os = any_os();
    let (code, _) = run(&os);
    assert!(code == 0, "canary: must fail");
}
