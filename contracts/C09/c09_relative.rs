// C09: position-independent outputs are correct at any load address -- emission kernel.
//
// Child module of libwild::elf_writer (appended to src/elf_writer.rs), so the private
// TableWriter and its sub-writers can be built by struct literal.  The contract is stated in
// harness form (assume pre / call the real function / assert post): the function returns
// crate::error::Result, which Kani 0.68's contract attributes cannot wrap.
//
// Contract of TableWriter::write_address_relocation::<A>(place, relative_address), taken from the
// property statement ("every place that holds an absolute address is covered by exactly one
// dynamic relocation, and every RELR entry decodes to such a place; the image at any load base
// equals the image at the link-time base shifted by that base"):
//
//   requires  output_kind.is_relocatable()
//   ensures   Ok(w)  ==> exactly one entry was consumed, from exactly one of the two tables
//                        (.relr.dyn / .rela.dyn-relative), nothing else was written, and
//               RELR : the entry is an *address* entry (even) equal to `place`, and the word w to
//                      be stored at the place is `relative_address`
//                      -- glibc elf_dynamic_do_Relr: *(base+entry) += base
//               RELA : the entry is {r_offset: place, r_info: (sym 0, R_<arch>_RELATIVE),
//                      r_addend: relative_address}
//                      -- glibc elf_machine_rela_relative: *(base+r_offset) = base + r_addend
//                      in both cases: loaded_value(base) == relative_address + base (mod 2^64)
//             Err    ==> the table the place needs is exhausted and no table was modified
use super::*;
use crate::elf::Relr;

#[path = "__verif_stubs.rs"]
mod stubs;

fn any_rela() -> Rela {
    let mut r = Rela { r_offset: Default::default(), r_info: Default::default(), r_addend: Default::default() };
    r.r_offset.set(LittleEndian, kani::any());
    r.r_info.set(LittleEndian, kani::any());
    r.r_addend.set(LittleEndian, kani::any());
    r
}

fn any_relr() -> Relr {
    let mut r = object::elf::Relr64(Default::default());
    r.0.set(LittleEndian, kani::any());
    r
}

fn rela_eq(a: &Rela, b: &Rela) -> bool {
    a.r_offset.get(LittleEndian) == b.r_offset.get(LittleEndian)
        && a.r_info.get(LittleEndian) == b.r_info.get(LittleEndian)
        && a.r_addend.get(LittleEndian) == b.r_addend.get(LittleEndian)
}

fn any_relocatable_kind() -> OutputKind {
    let k: u8 = kani::any();
    match k % 4 {
        0 => OutputKind::StaticExecutable(crate::args::RelocationModel::Relocatable),
        1 => OutputKind::DynamicExecutable(crate::args::RelocationModel::Relocatable),
        2 => OutputKind::SharedObject,
        _ => OutputKind::Relocatable,
    }
}

/// What the dynamic loader leaves at `place` for load base `base` (glibc do-rel.h / dl-machine.h),
/// given the word the linker stored there and the one dynamic relocation that covers it.
fn loaded_value_relr(stored: u64, base: u64) -> u64 {
    stored.wrapping_add(base)
}
fn loaded_value_rela(addend: i64, base: u64) -> u64 {
    base.wrapping_add(addend as u64)
}

macro_rules! c09_harness {
    ($name:ident, $arch:ty, $rtype:expr) => {
        #[kani::proof]
        #[kani::stub(alloc::fmt::format, stubs::verif_format_stub)]
        #[kani::stub(crate::file_writer::verify_allocations_message, stubs::verif_empty_string)]
        fn $name() {
            let place: u64 = kani::any();
            let relative_address: u64 = kani::any();
            let base: u64 = kani::any();
            let relr_enabled: bool = kani::any();
            let n_relr: usize = kani::any();
            let n_rela: usize = kani::any();
            kani::assume(n_relr <= 2 && n_rela <= 2);
            // "filter(|b| !b.is_empty())" in TableWriter::new: an enabled RELR table is non-empty
            // when the writer starts; it may run empty later, which n_relr == 0 covers.
            let mut relr_arr = [any_relr(), any_relr()];
            let mut rela_arr = [any_rela(), any_rela()];
            let mut general_arr = [any_rela()];
            let relr0 = [relr_arr[0].0.get(LittleEndian), relr_arr[1].0.get(LittleEndian)];
            let rela0 = [
                Rela { r_offset: rela_arr[0].r_offset, r_info: rela_arr[0].r_info, r_addend: rela_arr[0].r_addend },
                Rela { r_offset: rela_arr[1].r_offset, r_info: rela_arr[1].r_info, r_addend: rela_arr[1].r_addend },
            ];
            let general0 = Rela { r_offset: general_arr[0].r_offset, r_info: general_arr[0].r_info, r_addend: general_arr[0].r_addend };
            let mut got_arr = [kani::any::<u64>()];
            let got0 = got_arr[0];
            // never read by the function under contract; nondeterministic storage (a read would see arbitrary contents)
            let sections_storage = core::mem::MaybeUninit::<OutputSections<'static, Elf>>::uninit();
            let sections: &OutputSections<'static, Elf> = unsafe { &*sections_storage.as_ptr() };
            let result;
            let relr_left;
            let rela_left;
            {
                let mut tw = TableWriter {
                    output_kind: any_relocatable_kind(),
                    got: &mut got_arr[..],
                    plt_got: &mut [],
                    rela_plt: &mut [],
                    tls: 0..0,
                    rela_dyn_relative: &mut rela_arr[..n_rela],
                    rela_dyn_general: &mut general_arr[..],
                    relr_dyn: if relr_enabled { Some(&mut relr_arr[..n_relr]) } else { None },
                    dynsym_writer: SymbolTableWriter {
                        local_entries: &mut [],
                        global_entries: &mut [],
                        output_sections: sections,
                        strtab_writer: StrTabWriter { next_offset: 0, out: &mut [] },
                        is_dynamic: true,
                        symtab_shndx_local_entries: None,
                        symtab_shndx_global_entries: None,
                    },
                    debug_symbol_writer: SymbolTableWriter {
                        local_entries: &mut [],
                        global_entries: &mut [],
                        output_sections: sections,
                        strtab_writer: StrTabWriter { next_offset: 0, out: &mut [] },
                        is_dynamic: false,
                        symtab_shndx_local_entries: None,
                        symtab_shndx_global_entries: None,
                    },
                    eh_frame_start_address: 0,
                    eh_frame: &mut [],
                    eh_frame_hdr: &mut [],
                    dynamic: DynamicEntriesWriter { out: &mut [] },
                    version_writer: VersionWriter { version_d: &mut [], version_r: &mut [], versym: None },
                };
                let r = tw.write_address_relocation::<$arch>(place, relative_address);
                result = match &r { Ok(w) => Some(*w), Err(_) => None };
                core::mem::forget(r);
                relr_left = tw.relr_dyn.as_ref().map(|s| s.len());
                rela_left = tw.rela_dyn_relative.len();
                assert!(tw.rela_dyn_general.len() == 1 && tw.got.len() == 1, "an unrelated table was consumed");
                core::mem::forget(tw);
            }
            let uses_relr = relr_enabled && place % 2 == 0;
            // frame: unrelated tables are never written
            assert!(rela_eq(&general_arr[0], &general0) && got_arr[0] == got0, "an unrelated table was written");
            match result {
                Some(w) => {
                    if uses_relr {
                        assert!(n_relr >= 1, "RELR entry taken from an empty table");
                        assert!(relr_left == Some(n_relr - 1) && rela_left == n_rela, "not exactly one entry from exactly one table");
                        let entry = relr_arr[0].0.get(LittleEndian);
                        assert!(entry & 1 == 0, "RELR entry does not decode as an address entry");
                        assert!(entry == place, "RELR entry does not decode to the place");
                        assert!(relr_arr[1].0.get(LittleEndian) == relr0[1], "a later RELR entry was overwritten");
                        assert!(rela_eq(&rela_arr[0], &rela0[0]) && rela_eq(&rela_arr[1], &rela0[1]), "RELA written although RELR covers the place");
                        assert!(loaded_value_relr(w, base) == relative_address.wrapping_add(base), "image at base b is not image at 0 shifted by b (RELR)");
                    } else {
                        assert!(n_rela >= 1, "RELA entry taken from an empty table");
                        assert!(rela_left == n_rela - 1 && relr_left == if relr_enabled { Some(n_relr) } else { None }, "not exactly one entry from exactly one table");
                        assert!(rela_arr[0].r_offset.get(LittleEndian) == place, "RELA r_offset is not the place");
                        assert!(rela_arr[0].r_info.get(LittleEndian) == ($rtype as u64), "RELA r_info is not (sym 0, R_*_RELATIVE)");
                        assert!(rela_eq(&rela_arr[1], &rela0[1]), "a later RELA entry was overwritten");
                        assert!(relr_arr[0].0.get(LittleEndian) == relr0[0] && relr_arr[1].0.get(LittleEndian) == relr0[1], "RELR written although RELA covers the place");
                        // the word stored at the place is irrelevant for RELA (the loader overwrites it); wild stores w
                        assert!(w == 0, "RELA-covered place should hold 0 in the file");
                        assert!(loaded_value_rela(rela_arr[0].r_addend.get(LittleEndian), base) == relative_address.wrapping_add(base), "image at base b is not image at 0 shifted by b (RELA)");
                    }
                }
                None => {
                    // only exhaustion of the needed table may fail, and then nothing is written
                    assert!(if uses_relr { n_relr == 0 } else { n_rela == 0 }, "Err although the needed table has room");
                    assert!(relr_arr[0].0.get(LittleEndian) == relr0[0] && relr_arr[1].0.get(LittleEndian) == relr0[1], "RELR table modified on Err");
                    assert!(rela_eq(&rela_arr[0], &rela0[0]) && rela_eq(&rela_arr[1], &rela0[1]), "RELA table modified on Err");
                    assert!(relr_left == if relr_enabled { Some(n_relr) } else { None } && rela_left == n_rela, "entry consumed on Err");
                }
            }
        }
    };
}

c09_harness!(c09_x86_64_relative_relocation_contract, crate::elf_x86_64::ElfX86_64, object::elf::R_X86_64_RELATIVE);
c09_harness!(c09_aarch64_relative_relocation_contract, crate::elf_aarch64::ElfAArch64, object::elf::R_AARCH64_RELATIVE);
c09_harness!(c09_riscv64_relative_relocation_contract, crate::elf_riscv64::ElfRiscV64, object::elf::R_RISCV_RELATIVE);
c09_harness!(c09_loongarch64_relative_relocation_contract, crate::elf_loongarch64::ElfLoongArch64, object::elf::R_LARCH_RELATIVE);

// vacuity canary: both encodings must be reachable with room in the table
#[kani::proof]
#[kani::stub(alloc::fmt::format, stubs::verif_format_stub)]
#[kani::stub(crate::file_writer::verify_allocations_message, stubs::verif_empty_string)]
fn c09_canary_both_encodings_reachable() {
    let place: u64 = kani::any();
    let mut relr_arr = [any_relr()];
    let mut rela_arr = [any_rela()];
    let sections_storage = core::mem::MaybeUninit::<OutputSections<'static, Elf>>::uninit();
    let sections: &OutputSections<'static, Elf> = unsafe { &*sections_storage.as_ptr() };
    let mut tw = TableWriter {
        output_kind: OutputKind::SharedObject,
        got: &mut [], plt_got: &mut [], rela_plt: &mut [], tls: 0..0,
        rela_dyn_relative: &mut rela_arr[..], rela_dyn_general: &mut [],
        relr_dyn: Some(&mut relr_arr[..]),
        dynsym_writer: SymbolTableWriter { local_entries: &mut [], global_entries: &mut [], output_sections: sections,
            strtab_writer: StrTabWriter { next_offset: 0, out: &mut [] }, is_dynamic: true,
            symtab_shndx_local_entries: None, symtab_shndx_global_entries: None },
        debug_symbol_writer: SymbolTableWriter { local_entries: &mut [], global_entries: &mut [], output_sections: sections,
            strtab_writer: StrTabWriter { next_offset: 0, out: &mut [] }, is_dynamic: false,
            symtab_shndx_local_entries: None, symtab_shndx_global_entries: None },
        eh_frame_start_address: 0, eh_frame: &mut [], eh_frame_hdr: &mut [],
        dynamic: DynamicEntriesWriter { out: &mut [] },
        version_writer: VersionWriter { version_d: &mut [], version_r: &mut [], versym: None },
    };
    let r = tw.write_address_relocation::<crate::elf_x86_64::ElfX86_64>(place, 5);
    let w = match &r { Ok(w) => *w, Err(_) => 99 };
    core::mem::forget(r);
    core::mem::forget(tw);
    // must fail: both w == 5 (RELR) and w == 0 (RELA) are reachable
    assert!(w != 5, "canary: RELR path reachable");
    assert!(w != 0, "canary: RELA path reachable");
}
