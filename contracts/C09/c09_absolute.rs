// C09, one level up: the caller of write_address_relocation.
//
// Child module of libwild::elf_writer.  Contract of
//     write_absolute_relocation::<A>(table_writer, resolution, place, addend, section_info, ..)
// (the arm of apply_relocation that handles RelocationKind::Absolute, i.e. every place that is to
// hold S + A), taken from the property statement, for position-independent outputs:
//   * symbol with a link-time ADDRESS (not absolute, not dynamic, not ifunc), non-interposable,
//     place in an allocated writable section:
//         Ok(w) ==> exactly one R_*_RELATIVE-class dynamic relocation (RELR address entry or RELA)
//                   was emitted, it decodes to `place` -- for every section address, odd or even --
//                   and what the loader leaves at the place for load base b is (S + A) + b;
//   * ABSOLUTE symbol (not dynamic): no dynamic relocation, the stored word is S + A (it must
//     not shift with the base);
//   * non-allocated section (debug info): no dynamic relocation, the stored word is S + A.
// `&Layout` and `&ObjectLayout` are nondeterministic storage (MaybeUninit): with
// resolution.raw_value != 0 the function only forwards them (value_with_addend returns
// raw_value + addend without reading them); layout.symbol_db.section_part_ids is initialised to
// an empty Vec because a slice reference to it is formed.
use super::*;
use crate::elf::Relr;
use crate::layout::Resolution;
use crate::value_flags::ValueFlags;

#[path = "__verif_stubs.rs"]
mod stubs;

// value_with_addend consults the string-merge tables only when raw_value == 0; the harnesses
// assume raw_value != 0, so this stub must be unreachable -- it panics (fails the obligation) if
// it ever is.  It is stubbed because the real function statically reaches hashbrown, which crashes
// the Kani 0.68 compiler (intrinsics.rs:243).
#[allow(clippy::too_many_arguments)]
fn merged_string_lookup_unreachable<'data, P: crate::platform::Platform>(
    _symbol_index: object::SymbolIndex,
    _addend: i64,
    _object: &P::File<'data>,
    _sections: &[crate::resolution::SectionSlot],
    _section_part_ids: &[crate::part_id::PartId],
    _section_id_range: crate::input_section_id::SectionIdRange,
    _merged_strings: &OutputSectionMap<crate::string_merging::MergedStringsSection>,
    _merged_string_start_addresses: &crate::string_merging::MergedStringStartAddresses,
    _zero_unnamed: bool,
) -> Result<Option<u64>> {
    panic!("string-merge lookup reached although raw_value != 0");
}

// The interposable-symbol arm (a symbolic R_*_64 dynamic relocation) is excluded by the
// preconditions below; its body opens a tracing span, through which Kani's reachability analysis
// pulls in tracing-subscriber's registry and hashbrown (compiler crash).  Stubbed by a function
// that fails the obligation if it is ever reached.
fn dynamic_symbol_relocation_unreachable<'layout, 'out, A: Arch<Platform = Elf>>(
    _tw: &mut TableWriter<'layout, 'out>,
    _place: u64,
    _addend: i64,
    _symbol_index: u32,
    _kind: DynamicRelocationKind,
) -> Result
where
    'layout: 'layout,
    'out: 'out,
{
    panic!("symbolic dynamic relocation emitted for a non-interposable symbol");
}

// Same for the ifunc arm (IRELATIVE; excluded by the preconditions): its body emits a tracing event.
fn ifunc_relocation_unreachable<'layout, 'out, A: Arch<Platform = Elf>>(
    _tw: &mut TableWriter<'layout, 'out>,
    _place: u64,
    _resolver_address: i64,
) -> Result
where
    'layout: 'layout,
    'out: 'out,
{
    panic!("IRELATIVE relocation emitted for a non-ifunc symbol");
}

fn any_rela() -> Rela {
    let mut r = Rela { r_offset: Default::default(), r_info: Default::default(), r_addend: Default::default() };
    r.r_offset.set(LittleEndian, kani::any());
    r.r_info.set(LittleEndian, kani::any());
    r.r_addend.set(LittleEndian, kani::any());
    r
}
fn any_relr() -> Relr {
    let mut r = object::elf::Relr64(Default::default());
    r.0.set(LittleEndian, kani::any());
    r
}

#[derive(Clone, Copy, PartialEq)]
enum Case {
    AddressInWritable,
    AbsoluteSymbol,
    NonAllocSection,
}

macro_rules! c09_abs_harness {
    ($name:ident, $arch:ty, $rtype:expr, $case:expr) => {
        #[kani::proof]
        #[kani::stub(alloc::fmt::format, stubs::verif_format_stub)]
        #[kani::stub(crate::file_writer::verify_allocations_message, stubs::verif_empty_string)]
        #[kani::stub(crate::string_merging::get_merged_string_output_address, merged_string_lookup_unreachable)]
        #[kani::stub(TableWriter::write_dynamic_symbol_relocation, dynamic_symbol_relocation_unreachable)]
        #[kani::stub(TableWriter::write_ifunc_relocation_for_data, ifunc_relocation_unreachable)]
        fn $name() {
            let case: Case = $case;
            let section_address: u64 = kani::any();
            let offset_in_section: u64 = kani::any();
            kani::assume(section_address <= u64::MAX / 4 && offset_in_section <= u64::MAX / 4);
            let place = section_address + offset_in_section;
            let addend: i64 = kani::any();
            let base: u64 = kani::any();
            let raw_value: u64 = kani::any();
            kani::assume(raw_value != 0); // a resolved address; 0 is the string-merge lookup path
            let mut flags = ValueFlags::from_bits_retain(kani::any());
            let relr_enabled: bool = kani::any();
            let okind = {
                let k: u8 = kani::any();
                match k % 3 {
                    0 => OutputKind::StaticExecutable(crate::args::RelocationModel::Relocatable),
                    1 => OutputKind::DynamicExecutable(crate::args::RelocationModel::Relocatable),
                    _ => OutputKind::SharedObject,
                }
            };
            let mut sflags = linker_utils::elf::SectionFlags::from_u32(kani::any());
            let mut is_writable = true;
            match case {
                Case::AddressInWritable => {
                    kani::assume(flags.is_address() && !flags.is_interposable());
                    kani::assume(sflags.contains(shf::ALLOC));
                }
                Case::AbsoluteSymbol => {
                    kani::assume(flags.is_absolute() && !flags.is_dynamic() && !flags.is_ifunc() && !flags.is_interposable());
                    kani::assume(sflags.contains(shf::ALLOC));
                }
                Case::NonAllocSection => {
                    kani::assume(!flags.is_ifunc());
                    kani::assume(!sflags.contains(shf::ALLOC));
                    is_writable = kani::any();
                }
            }
            let resolution: Resolution<Elf> = Resolution {
                raw_value,
                dynamic_symbol_index: None,
                flags,
                format_specific: crate::elf::ResolutionExt { got_address: None, plt_address: None },
            };
            let section_info = SectionInfo { section_address, is_writable, section_flags: sflags, part_id: part_id::GOT };
            let mut relr_arr = [any_relr()];
            let mut rela_arr = [any_rela()];
            let mut general_arr = [any_rela()];
            let relr0 = relr_arr[0].0.get(LittleEndian);
            let rela0 = (rela_arr[0].r_offset.get(LittleEndian), rela_arr[0].r_info.get(LittleEndian), rela_arr[0].r_addend.get(LittleEndian));
            let gen0 = (general_arr[0].r_offset.get(LittleEndian), general_arr[0].r_info.get(LittleEndian), general_arr[0].r_addend.get(LittleEndian));
            let sections_storage = core::mem::MaybeUninit::<OutputSections<'static, Elf>>::uninit();
            let sections: &OutputSections<'static, Elf> = unsafe { &*sections_storage.as_ptr() };
            let mut layout_storage = core::mem::MaybeUninit::<ElfLayout<'static>>::uninit();
            unsafe {
                core::ptr::addr_of_mut!((*layout_storage.as_mut_ptr()).symbol_db.section_part_ids).write(Vec::new());
            }
            let object_layout_storage = core::mem::MaybeUninit::<ObjectLayout<'static, Elf>>::uninit();
            let result;
            let relr_left;
            let rela_left;
            let general_left;
            {
                let mut tw = TableWriter {
                    output_kind: okind,
                    got: &mut [], plt_got: &mut [], rela_plt: &mut [], tls: 0..0,
                    rela_dyn_relative: &mut rela_arr[..],
                    rela_dyn_general: &mut general_arr[..],
                    relr_dyn: if relr_enabled { Some(&mut relr_arr[..]) } else { None },
                    dynsym_writer: SymbolTableWriter { local_entries: &mut [], global_entries: &mut [], output_sections: sections,
                        strtab_writer: StrTabWriter { next_offset: 0, out: &mut [] }, is_dynamic: true,
                        symtab_shndx_local_entries: None, symtab_shndx_global_entries: None },
                    debug_symbol_writer: SymbolTableWriter { local_entries: &mut [], global_entries: &mut [], output_sections: sections,
                        strtab_writer: StrTabWriter { next_offset: 0, out: &mut [] }, is_dynamic: false,
                        symtab_shndx_local_entries: None, symtab_shndx_global_entries: None },
                    eh_frame_start_address: 0, eh_frame: &mut [], eh_frame_hdr: &mut [],
                    dynamic: DynamicEntriesWriter { out: &mut [] },
                    version_writer: VersionWriter { version_d: &mut [], version_r: &mut [], versym: None },
                };
                let r = unsafe {
                    write_absolute_relocation::<$arch>(
                        &mut tw, resolution, place, addend, section_info, object::SymbolIndex(1),
                        &*object_layout_storage.as_ptr(), &*layout_storage.as_ptr(),
                    )
                };
                result = match &r { Ok(w) => Some(*w), Err(_) => None };
                core::mem::forget(r);
                relr_left = tw.relr_dyn.as_ref().map(|s| s.len());
                rela_left = tw.rela_dyn_relative.len();
                general_left = tw.rela_dyn_general.len();
                core::mem::forget(tw);
            }
            let sa = raw_value.wrapping_add(addend as u64); // S + A
            let relr_now = relr_arr[0].0.get(LittleEndian);
            let rela_now = (rela_arr[0].r_offset.get(LittleEndian), rela_arr[0].r_info.get(LittleEndian), rela_arr[0].r_addend.get(LittleEndian));
            let gen_now = (general_arr[0].r_offset.get(LittleEndian), general_arr[0].r_info.get(LittleEndian), general_arr[0].r_addend.get(LittleEndian));
            let Some(w) = result else {
                assert!(false, "absolute relocation failed although both relative tables have room");
                return;
            };
            assert!(general_left == 1 && gen_now == gen0, "a general (symbolic) dynamic relocation was emitted for a link-time-known value");
            match case {
                Case::AddressInWritable => {
                    let took_relr = relr_left == Some(0);
                    let took_rela = rela_left == 0;
                    assert!(took_relr != took_rela, "the place is not covered by exactly one relative dynamic relocation");
                    if took_relr {
                        assert!(relr_now & 1 == 0, "RELR entry is odd: the loader decodes it as a bitmap, not as this place");
                        assert!(relr_now == place, "RELR entry does not decode to the place");
                        assert!(rela_now == rela0, "RELA entry also written");
                        assert!(w.wrapping_add(base) == sa.wrapping_add(base), "loaded value is not (S + A) + base (RELR)");
                    } else {
                        assert!(rela_now.0 == place, "RELA r_offset is not the place");
                        assert!(rela_now.1 == $rtype as u64, "RELA is not (sym 0, R_*_RELATIVE)");
                        assert!(relr_now == relr0, "RELR entry also written");
                        assert!(base.wrapping_add(rela_now.2 as u64) == sa.wrapping_add(base), "loaded value is not (S + A) + base (RELA)");
                    }
                }
                Case::AbsoluteSymbol | Case::NonAllocSection => {
                    assert!(relr_left == if relr_enabled { Some(1) } else { None } && rela_left == 1, "a dynamic relocation was emitted for a value that must not shift with the load base");
                    assert!(relr_now == relr0 && rela_now == rela0, "a relative relocation table was written");
                    assert!(w == sa, "stored word is not S + A");
                }
            }
        }
    };
}

c09_abs_harness!(c09_abs_x86_64_address_in_writable_section, crate::elf_x86_64::ElfX86_64, object::elf::R_X86_64_RELATIVE, Case::AddressInWritable);
c09_abs_harness!(c09_abs_aarch64_address_in_writable_section, crate::elf_aarch64::ElfAArch64, object::elf::R_AARCH64_RELATIVE, Case::AddressInWritable);
c09_abs_harness!(c09_abs_x86_64_absolute_symbol_does_not_shift, crate::elf_x86_64::ElfX86_64, object::elf::R_X86_64_RELATIVE, Case::AbsoluteSymbol);
c09_abs_harness!(c09_abs_x86_64_non_alloc_section_gets_no_dynamic_relocation, crate::elf_x86_64::ElfX86_64, object::elf::R_X86_64_RELATIVE, Case::NonAllocSection);
