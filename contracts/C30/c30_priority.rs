// C30: constructor/destructor order -- priority kernel.
//
// Child module of libwild::elf.  Harness-form contracts on the real
//   elf::init_fini_priority, elf::parse_priority_suffix, <Elf as Platform>::init_section_priority
// against GNU ld's SORT_BY_INIT_PRIORITY key (ld/ldlang.c get_init_priority): the decimal suffix N
// of .init_array.N / .fini_array.N is the key, .ctors.N / .dtors.N use 65535 - N, and the
// unsuffixed sections sort after every suffixed one (65535, the lowest priority GCC emits).
// BOUNDED: section names of at most MAXLEN bytes.
use super::*;
// named through an import (a bare path in kani::stub may bind to nothing useful)
use core::str::from_utf8 as from_utf8_of_core;

#[path = "__verif_stubs.rs"]
mod stubs;

const MAXLEN: usize = 16;

/// Independent transcription of the rule (no strip_prefix / parse / from_utf8).
/// Returns (defined, value): value is meaningful only when N <= 65535.
fn spec_priority(name: &[u8]) -> (bool, Option<u64>) {
    const PLAIN: [&[u8]; 4] = [b".init_array", b".fini_array", b".ctors", b".dtors"];
    let mut k = 0;
    while k < 4 {
        let p = PLAIN[k];
        if name.len() == p.len() && starts_with(name, p) {
            return (true, Some(65535));
        }
        if name.len() > p.len() + 1 && starts_with(name, p) && name[p.len()] == b'.' {
            // decimal suffix
            let mut n: u64 = 0;
            let mut i = p.len() + 1;
            while i < name.len() {
                let c = name[i];
                if !(c >= b'0' && c <= b'9') {
                    return (false, None);
                }
                n = n * 10 + (c - b'0') as u64; // <= 16 digits: no u64 overflow
                i += 1;
            }
            let legacy = k >= 2;
            return (true, Some(if legacy { if n <= 65535 { 65535 - n } else { 0 } } else { n }));
        }
        k += 1;
    }
    (false, None)
}

fn starts_with(name: &[u8], p: &[u8]) -> bool {
    if name.len() < p.len() {
        return false;
    }
    let mut i = 0;
    while i < p.len() {
        if name[i] != p[i] {
            return false;
        }
        i += 1;
    }
    true
}

fn check(name: &[u8]) {
    check_via(name, false)
}

// NOTE: the function and the Platform hook are never called on the same symbolic name in one
// obligation: asserting that two runs of the decimal parser agree is a multiplier-equivalence
// problem that CBMC's SAT back end does not finish (measured: > 15 min, against ~30 s for one run
// compared with the specification).
fn check_via(name: &[u8], via_platform_hook: bool) {
    let got = if via_platform_hook {
        <Elf as crate::platform::Platform>::init_section_priority(name)
    } else {
        init_fini_priority(name)
    };
    let (defined, want) = spec_priority(name);
    if !defined {
        assert!(got.is_none(), "a name that is not an init/fini/ctors/dtors section got a priority");
    } else {
        let n = want.unwrap();
        if n <= 65535 {
            // GCC's range: exact key
            assert!(got == Some(n as u16), "priority differs from GNU ld's SORT_BY_INIT_PRIORITY key");
        } else if n <= u32::MAX as u64 {
            // beyond the 16-bit range GCC never emits: wild clamps (order-preserving, not exact)
            assert!(got == Some(65535), "out-of-range priority is not clamped to the lowest priority");
        }
        // a suffix that overflows u32 is unspecified here (no panic is still checked by Kani)
    }
}

// Family name CONCRETE, tail shape concrete, tail bytes symbolic.  (Measured: with the family
// chosen symbolically, or with fully symbolic names long enough to reach parse_priority_suffix,
// CBMC does not finish in 15 min - several symbolic-prefix paths into core::str::from_utf8 /
// str::parse; with a concrete family each obligation takes ~30 s.)
macro_rules! c30_family_harness {
    ($name:ident, $fam:expr, $tail:expr, $decimal:expr) => {
        #[kani::proof]
        #[kani::unwind(19)]
        #[kani::stub(from_utf8_of_core, stubs::verif_from_utf8_ascii_stub)]
        fn $name() {
            const FLEN: usize = $fam.len();
            const TAIL: usize = $tail;
            let tail: [u8; TAIL] = kani::any();
            // case split (both cases are obligations): the tail is ".<decimal digits>" or not
            let mut decimal = TAIL >= 2 && tail[0] == b'.';
            let mut j = 1;
            while j < TAIL {
                if !(tail[j] >= b'0' && tail[j] <= b'9') {
                    decimal = false;
                }
                j += 1;
            }
            kani::assume(decimal == $decimal);
            let mut buf = [0u8; FLEN + TAIL];
            buf[..FLEN].copy_from_slice($fam);
            let mut j = 0;
            while j < TAIL {
                buf[FLEN + j] = tail[j];
                j += 1;
            }
            check(&buf[..]);
        }
    };
}

macro_rules! c30_family {
    ($fam:expr, $bare:ident, $d2:ident, $d5:ident, $o3:ident, $o6:ident, $off:ident) => {
        c30_family_harness!($bare, $fam, 0, false);
        c30_family_harness!($d2, $fam, 3, true);
        c30_family_harness!($d5, $fam, 6, true);
        c30_family_harness!($o3, $fam, 3, false);
        c30_family_harness!($o6, $fam, 6, false);
        // a name that differs from the family name in exactly one (symbolic) position, with and
        // without a ".7" suffix, is not in the family
        #[kani::proof]
        #[kani::stub(from_utf8_of_core, stubs::verif_from_utf8_ascii_stub)]
        #[kani::unwind(19)]
        fn $off() {
            const FLEN: usize = $fam.len();
            let mut buf = [0u8; FLEN + 2];
            buf[..FLEN].copy_from_slice($fam);
            buf[FLEN] = b'.';
            buf[FLEN + 1] = b'7';
            let idx: usize = kani::any();
            kani::assume(idx < FLEN);
            let c: u8 = kani::any();
            kani::assume(c != buf[idx]);
            buf[idx] = c;
            // .ctors <-> .dtors differ in exactly ONE position (.init_array <-> .fini_array in
            // three): a mutation that lands on another family name is not "off the family"
            let base = &buf[..FLEN];
            kani::assume(base != &b".ctors"[..] && base != &b".dtors"[..]);
            let with_suffix: bool = kani::any();
            let name = if with_suffix { &buf[..] } else { &buf[..FLEN] };
            assert!(init_fini_priority(name).is_none(), "a name one byte off a family name got a priority");
        }
    };
}

c30_family!(b".init_array", c30_priority_init_array_bare, c30_priority_init_array_2_digits, c30_priority_init_array_5_digits,
    c30_priority_init_array_3_other_bytes, c30_priority_init_array_6_other_bytes, c30_priority_init_array_one_byte_off);
c30_family!(b".fini_array", c30_priority_fini_array_bare, c30_priority_fini_array_2_digits, c30_priority_fini_array_5_digits,
    c30_priority_fini_array_3_other_bytes, c30_priority_fini_array_6_other_bytes, c30_priority_fini_array_one_byte_off);
c30_family!(b".ctors", c30_priority_ctors_bare, c30_priority_ctors_2_digits, c30_priority_ctors_5_digits,
    c30_priority_ctors_3_other_bytes, c30_priority_ctors_6_other_bytes, c30_priority_ctors_one_byte_off);
c30_family!(b".dtors", c30_priority_dtors_bare, c30_priority_dtors_2_digits, c30_priority_dtors_5_digits,
    c30_priority_dtors_3_other_bytes, c30_priority_dtors_6_other_bytes, c30_priority_dtors_one_byte_off);

// one-digit suffixes: cheap enough for the quick tier (no multi-digit accumulation), and enough to
// tell the two key directions apart (N for .init_array/.fini_array, 65535 - N for .ctors/.dtors)
c30_family_harness!(c30_priority_init_array_1_digit, b".init_array", 2, true);
c30_family_harness!(c30_priority_fini_array_1_digit, b".fini_array", 2, true);
c30_family_harness!(c30_priority_ctors_1_digit, b".ctors", 2, true);
c30_family_harness!(c30_priority_dtors_1_digit, b".dtors", 2, true);

// the Platform hook used by resolution.rs (<Elf as Platform>::init_section_priority) obeys the same
// rule: bare names and two-digit suffixes of the four families
macro_rules! c30_hook_harness {
    ($name:ident, $fam:expr) => {
        #[kani::proof]
        #[kani::stub(from_utf8_of_core, stubs::verif_from_utf8_ascii_stub)]
        #[kani::unwind(19)]
        fn $name() {
            const FLEN: usize = $fam.len();
            let mut buf = [0u8; FLEN + 3];
            buf[..FLEN].copy_from_slice($fam);
            buf[FLEN] = b'.';
            let d: [u8; 2] = kani::any();
            kani::assume(d[0] >= b'0' && d[0] <= b'9' && d[1] >= b'0' && d[1] <= b'9');
            buf[FLEN + 1] = d[0];
            buf[FLEN + 2] = d[1];
            let suffixed: bool = kani::any();
            check_via(if suffixed { &buf[..] } else { &buf[..FLEN] }, true);
        }
    };
}
c30_hook_harness!(c30_platform_hook_init_array, b".init_array");
c30_hook_harness!(c30_platform_hook_ctors, b".ctors");

// every name of exactly 6 bytes (all symbolic; too short to reach the suffix parser)
#[kani::proof]
#[kani::stub(from_utf8_of_core, stubs::verif_from_utf8_ascii_stub)]
#[kani::unwind(19)]
fn c30_priority_any_name_of_6_bytes() {
    let buf: [u8; 6] = kani::any();
    check(&buf[..]);
}

// Ordering consequence, stated directly: for two suffixed sections of the same family with
// in-range priorities, wild's key orders them exactly as the numeric suffix does (ascending for
// .init_array/.fini_array, descending for .ctors/.dtors).
#[kani::proof]
#[kani::stub(from_utf8_of_core, stubs::verif_from_utf8_ascii_stub)]
#[kani::unwind(8)]
fn c30_parse_suffix_is_decimal_value() {
    let digits: [u8; 5] = kani::any();
    let len: usize = kani::any();
    kani::assume(len >= 1 && len <= 5);
    let mut n: u32 = 0;
    let mut i = 0;
    while i < 5 {
        if i < len {
            kani::assume(digits[i] >= b'0' && digits[i] <= b'9');
            n = n * 10 + (digits[i] - b'0') as u32;
        }
        i += 1;
    }
    let got = parse_priority_suffix(&digits[..len]);
    assert!(got == Some(if n > 65535 { 65535 } else { n as u16 }), "decimal suffix parsed to a different number");
}

#[kani::proof]
#[kani::stub(from_utf8_of_core, stubs::verif_from_utf8_ascii_stub)]
#[kani::unwind(8)]
fn c30_parse_suffix_rejects_non_digits_and_empty() {
    let s: [u8; 5] = kani::any();
    let len: usize = kani::any();
    kani::assume(len <= 5);
    let mut all_digits = len > 0;
    let mut i = 0;
    while i < 5 {
        if i < len && !(s[i] >= b'0' && s[i] <= b'9') {
            all_digits = false;
        }
        i += 1;
    }
    kani::assume(!all_digits);
    assert!(parse_priority_suffix(&s[..len]).is_none(), "a non-decimal suffix was given a priority");
}

#[kani::proof]
#[kani::stub(from_utf8_of_core, stubs::verif_from_utf8_ascii_stub)]
#[kani::unwind(19)]
fn c30_canary_suffixed_names_reachable() {
    let mut buf = [0u8; 9];
    buf[..7].copy_from_slice(b".ctors.");
    let d: [u8; 2] = kani::any();
    buf[7] = d[0];
    buf[8] = d[1];
    let got = init_fini_priority(&buf[..]);
    // must fail: ".ctors.12" exists in the domain
    assert!(got != Some(65535 - 12), "canary");
}
