// C30: constructor/destructor order -- which input sections have their pointer words reversed.
//
// Child module of libwild::elf_writer.  Contract of the real
//     should_reverse_contents(section_index, part_id, file, output_sections) -> bool
// from GNU ld's behaviour (scripttempl/elf.sc places .ctors/.dtors inputs into
// .init_array/.fini_array and emits their words in reverse, because .ctors runs back to front
// while .init_array runs front to back; sections NAMED .init_array*/.fini_array* are copied
// forward whatever their sh_type is):
//     result <==> the part's primary output section is .init_array or .fini_array
//                 AND the input section's NAME starts with ".ctors" or ".dtors"
// and in particular the answer does not depend on sh_type or sh_flags of the input section.
// `&File` and `&OutputSections` are nondeterministic storage with exactly the fields the function
// reads initialised (file.sections: a 2-entry section table whose entry 1 has a symbolic name,
// type and flags; output_sections.section_infos: the built-in ids plus one secondary section of a
// symbolic primary) - DESIGN.md 1.4a.
// BOUNDED: section names of 0, 3, 5, 6, 7, 9, 11, 12 bytes (one obligation per length).
use super::*;
// `memchr::memchr` named through an import: a bare crate path in kani::stub may resolve to another
// build of the crate in the dependency graph (then the stub is reported but has no effect).
use memchr::memchr as memchr_of_this_build;
use crate::layout_rules::SectionKind;
use crate::output_section_id::SectionName;
use crate::output_section_id::SectionOutputInfo;

#[path = "__verif_stubs.rs"]
mod stubs;

const NAMELEN: usize = 12;

fn starts_with(name: &[u8], p: &[u8]) -> bool {
    if name.len() < p.len() {
        return false;
    }
    let mut i = 0;
    while i < p.len() {
        if name[i] != p[i] {
            return false;
        }
        i += 1;
    }
    true
}

fn info(kind: SectionKind<'static>) -> SectionOutputInfo<'static, Elf> {
    SectionOutputInfo {
        kind,
        section_attributes: Default::default(),
        min_alignment: crate::alignment::MIN,
        location: None,
        secondary_order: None,
    }
}

// One obligation per CONCRETE name length.  The string table's NUL search (memchr's SSE2 path:
// raw-pointer loops CBMC cannot bound) is replaced by memchr's contract as a plain loop - with the
// real path no length finished in 15 min, with the stub each takes under a minute (measured).
fn harness(check_secondary: bool, name_len: usize) {
    // ---- string table: "\0" + name + "\0"
    let mut strtab = [0u8; NAMELEN + 2];
    let name_bytes: [u8; NAMELEN] = kani::any();
    assert!(name_len <= NAMELEN);
    let mut i = 0;
    while i < NAMELEN {
        if i < name_len {
            kani::assume(name_bytes[i] != 0);
            strtab[1 + i] = name_bytes[i];
        }
        i += 1;
    }
    let strtab: &'static [u8] = Box::leak(Box::new(strtab));
    // ---- section headers: null section + one section with symbolic type/flags
    let mut headers: [crate::elf::SectionHeader; 2] = unsafe { core::mem::zeroed() };
    headers[1].sh_name.set(LittleEndian, 1);
    headers[1].sh_type.set(LittleEndian, kani::any());
    headers[1].sh_flags.set(LittleEndian, kani::any());
    let headers: &'static [crate::elf::SectionHeader; 2] = Box::leak(Box::new(headers));
    let table = object::read::elf::SectionTable::new(
        &headers[..],
        object::read::StringTable::new(strtab, 0, (NAMELEN + 2) as u64),
    );
    let mut file_storage = core::mem::MaybeUninit::<crate::elf::File<'static>>::uninit();
    unsafe {
        core::ptr::addr_of_mut!((*file_storage.as_mut_ptr()).sections).write(table);
    }
    // ---- output sections: built-in ids are primaries; one extra secondary of a symbolic primary
    let n_builtin = crate::output_section_id::NUM_BUILT_IN_SECTIONS;
    let mut infos: Vec<SectionOutputInfo<'static, Elf>> = Vec::with_capacity(n_builtin + 1);
    let mut k = 0;
    while k < n_builtin {
        infos.push(info(SectionKind::Primary(SectionName(b""))));
        k += 1;
    }
    let prim_choice: u8 = kani::any();
    let secondary_primary = match prim_choice % 4 {
        0 => output_section_id::INIT_ARRAY,
        1 => output_section_id::FINI_ARRAY,
        2 => output_section_id::PREINIT_ARRAY,
        _ => output_section_id::TEXT,
    };
    infos.push(info(SectionKind::Secondary(secondary_primary)));
    let secondary_id = crate::output_section_id::OutputSectionId::from_usize(n_builtin);
    let mut os_storage = core::mem::MaybeUninit::<OutputSections<'static, Elf>>::uninit();
    unsafe {
        core::ptr::addr_of_mut!((*os_storage.as_mut_ptr()).section_infos)
            .write(crate::output_section_map::OutputSectionMap::from_values(infos));
    }
    // ---- the part the input section was assigned to
    let (sid, primary) = if check_secondary {
        (secondary_id, secondary_primary)
    } else {
        let c: u8 = kani::any();
        let s = match c % 5 {
            0 => output_section_id::INIT_ARRAY,
            1 => output_section_id::FINI_ARRAY,
            2 => output_section_id::PREINIT_ARRAY,
            3 => output_section_id::TEXT,
            _ => output_section_id::DATA,
        };
        (s, s)
    };
    let part = sid.part_id_with_alignment(crate::alignment::MIN);
    let got = unsafe {
        should_reverse_contents(object::SectionIndex(1), part, &*file_storage.as_ptr(), &*os_storage.as_ptr())
    };
    let name = &name_bytes[..name_len];
    let in_array = primary == output_section_id::INIT_ARRAY || primary == output_section_id::FINI_ARRAY;
    let legacy = starts_with(name, b".ctors") || starts_with(name, b".dtors");
    assert!(got == (in_array && legacy), "contents reversed for a section that is not a .ctors/.dtors input of .init_array/.fini_array (or not reversed for one that is)");
}

macro_rules! c30_reverse_harness {
    ($name:ident, $secondary:expr, $len:expr) => {
        #[kani::proof]
        #[kani::unwind(70)]
        #[kani::stub(std::arch::x86_64::__cpuid_count, stubs::verif_cpuid_stub)]
        #[kani::stub(memchr_of_this_build, stubs::verif_memchr_stub)]
        fn $name() {
            harness($secondary, $len);
        }
    };
}
c30_reverse_harness!(c30_reverse_exactly_ctors_dtors_inputs_names_of_0_bytes, false, 0);
c30_reverse_harness!(c30_reverse_exactly_ctors_dtors_inputs_names_of_3_bytes, false, 3);
c30_reverse_harness!(c30_reverse_exactly_ctors_dtors_inputs_names_of_5_bytes, false, 5);
c30_reverse_harness!(c30_reverse_exactly_ctors_dtors_inputs_names_of_6_bytes, false, 6);
c30_reverse_harness!(c30_reverse_exactly_ctors_dtors_inputs_names_of_7_bytes, false, 7);
c30_reverse_harness!(c30_reverse_exactly_ctors_dtors_inputs_names_of_9_bytes, false, 9);
c30_reverse_harness!(c30_reverse_exactly_ctors_dtors_inputs_names_of_11_bytes, false, 11);
c30_reverse_harness!(c30_reverse_exactly_ctors_dtors_inputs_names_of_12_bytes, false, 12);
c30_reverse_harness!(c30_reverse_follows_the_primary_of_a_priority_secondary_names_of_6_bytes, true, 6);
c30_reverse_harness!(c30_reverse_follows_the_primary_of_a_priority_secondary_names_of_9_bytes, true, 9);

#[kani::proof]
#[kani::unwind(70)]
#[kani::stub(std::arch::x86_64::__cpuid_count, stubs::verif_cpuid_stub)]
#[kani::stub(memchr_of_this_build, stubs::verif_memchr_stub)]
fn c30_canary_reverse_reachable() {
    // must fail: with a symbolic name both answers are reachable
    let mut strtab = [0u8; NAMELEN + 2];
    let name_bytes: [u8; 6] = kani::any();
    let mut i = 0;
    while i < 6 {
        kani::assume(name_bytes[i] != 0);
        strtab[1 + i] = name_bytes[i];
        i += 1;
    }
    let strtab: &'static [u8] = Box::leak(Box::new(strtab));
    let mut headers: [crate::elf::SectionHeader; 2] = unsafe { core::mem::zeroed() };
    headers[1].sh_name.set(LittleEndian, 1);
    let headers: &'static [crate::elf::SectionHeader; 2] = Box::leak(Box::new(headers));
    let table = object::read::elf::SectionTable::new(&headers[..], object::read::StringTable::new(strtab, 0, (NAMELEN + 2) as u64));
    let mut file_storage = core::mem::MaybeUninit::<crate::elf::File<'static>>::uninit();
    unsafe { core::ptr::addr_of_mut!((*file_storage.as_mut_ptr()).sections).write(table); }
    let n_builtin = crate::output_section_id::NUM_BUILT_IN_SECTIONS;
    let mut infos: Vec<SectionOutputInfo<'static, Elf>> = Vec::with_capacity(n_builtin);
    let mut k = 0;
    while k < n_builtin {
        infos.push(info(SectionKind::Primary(SectionName(b""))));
        k += 1;
    }
    let mut os_storage = core::mem::MaybeUninit::<OutputSections<'static, Elf>>::uninit();
    unsafe {
        core::ptr::addr_of_mut!((*os_storage.as_mut_ptr()).section_infos)
            .write(crate::output_section_map::OutputSectionMap::from_values(infos));
    }
    let part = output_section_id::INIT_ARRAY.part_id_with_alignment(crate::alignment::MIN);
    let got = unsafe { should_reverse_contents(object::SectionIndex(1), part, &*file_storage.as_ptr(), &*os_storage.as_ptr()) };
    assert!(!got, "canary: reversal must be reachable");
}
