// C08: dynamic symbol hash tables find every exported symbol.
//
// Child module of libwild::elf_writer.  The REAL write_gnu_hash_tables / write_sysv_hash_table
// are executed.  They take `&Layout` / `&EpilogueLayout`, which cannot be built outside a link;
// the harness allocates those structs as nondeterministic storage (MaybeUninit) and initialises
// exactly the fields the two functions read (layout.dynamic_symbol_definitions;
// epilogue.format_specific.{gnu,sysv}_hash_layout, epilogue.dynsym_start_index).  Any other field
// read would see arbitrary contents, so the result holds for every value of every other field.
//
// Postcondition = the glibc lookup (elf/dl-lookup.c do_lookup_x / dl-hash.h) run on the written
// bytes, for EVERY defined dynamic symbol:
//   GNU : bloom word (h/64 mod maskwords) has bits h%64 and (h>>shift)%64; bucket[h % nbuckets]
//         is non-zero; walking chain words from that bucket reaches index i with
//         ((chain ^ h) >> 1) == 0 before a word with the stop bit (bit 0); and no walk from any
//         non-empty bucket runs off the end of the table (the last word of every run has the stop
//         bit).  maskwords must be a power of two (glibc masks with maskwords-1).
//   SysV: walking bucket[h % nbuckets], chain[..] reaches i before 0 (STN_UNDEF).
//   Both: the written table is a function of the inputs only (two arbitrary initial buffers give
//         identical results) -- the in-place-update determinism C06 lists for this writer.
// Precondition (what create_gnu_hash_layout's sort establishes, not executed here: it is a rayon
// parallel sort): definitions are ordered by bucket_for_hash(hash).
// BOUNDED: at most N dynamic symbol definitions.
use super::*;
use crate::elf::DynamicSymbolDefinitionExt;
use crate::elf::GnuHashLayout;
use crate::elf::SysvHashLayout;
use crate::layout::DynamicSymbolDefinition;
use crate::symbol_db::SymbolId;

#[path = "__verif_stubs.rs"]
mod stubs;

const N: usize = 3;
const NB: usize = 2; // max buckets
const GNU_BYTES: usize = 16 + 8 + 4 * NB + 4 * N;

static NAMES: [&[u8]; 3] = [b"a", b"b", b"c"];

fn rd32(b: &[u8], off: usize) -> u32 {
    u32::from_le_bytes([b[off], b[off + 1], b[off + 2], b[off + 3]])
}
fn rd64(b: &[u8], off: usize) -> u64 {
    (rd32(b, off) as u64) | ((rd32(b, off + 4) as u64) << 32)
}

struct Ctx {
    layout: core::mem::MaybeUninit<ElfLayout<'static>>,
    epilogue: core::mem::MaybeUninit<EpilogueLayout<Elf>>,
}

fn make_ctx(n: usize, hashes: &[u32; N], gnu: Option<GnuHashLayout>, sysv: Option<SysvHashLayout>, dynsym_start: u32) -> Ctx {
    let mut c = Ctx { layout: core::mem::MaybeUninit::uninit(), epilogue: core::mem::MaybeUninit::uninit() };
    let mut defs: Vec<DynamicSymbolDefinition<'static, Elf>> = Vec::with_capacity(N);
    let mut i = 0;
    while i < N {
        if i < n {
            defs.push(DynamicSymbolDefinition {
                symbol_id: SymbolId::undefined(),
                name: NAMES[i],
                format_specific: DynamicSymbolDefinitionExt { hash: hashes[i], version: 0 },
            });
        }
        i += 1;
    }
    unsafe {
        core::ptr::addr_of_mut!((*c.layout.as_mut_ptr()).dynamic_symbol_definitions).write(defs);
        core::ptr::addr_of_mut!((*c.epilogue.as_mut_ptr()).format_specific.gnu_hash_layout).write(gnu);
        core::ptr::addr_of_mut!((*c.epilogue.as_mut_ptr()).format_specific.sysv_hash_layout).write(sysv);
        core::ptr::addr_of_mut!((*c.epilogue.as_mut_ptr()).dynsym_start_index).write(dynsym_start);
    }
    c
}

fn run_gnu(ctx: &Ctx, buf: &mut [u8]) -> bool {
    let mut parts: Vec<&mut [u8]> = Vec::with_capacity(part_id::GNU_HASH.as_usize() + 1);
    let mut k = 0;
    while k < part_id::GNU_HASH.as_usize() {
        parts.push(&mut []);
        k += 1;
    }
    parts.push(buf);
    let mut buffers = OutputSectionPartMap { parts };
    let r = unsafe { write_gnu_hash_tables(&*ctx.layout.as_ptr(), &*ctx.epilogue.as_ptr(), &mut buffers) };
    let ok = r.is_ok();
    core::mem::forget(r);
    core::mem::forget(buffers);
    ok
}

fn gnu_harness(n: usize, nb: u32) {
    let hashes: [u32; N] = kani::any();
    let symbol_base: u32 = kani::any();
    kani::assume(symbol_base >= 1 && symbol_base <= 1000);
    let layout = GnuHashLayout { num_defs: n as u32, bucket_count: nb, bloom_shift: 6, bloom_count: 1, symbol_base };
    // precondition: sorted by bucket
    let mut i = 1;
    while i < N {
        if i < n {
            kani::assume(hashes[i - 1] % nb <= hashes[i] % nb);
        }
        i += 1;
    }
    let ctx = make_ctx(n, &hashes, Some(layout), None, 0);
    let used = 16 + 8 + 4 * nb as usize + 4 * n;
    let mut buf1: [u8; GNU_BYTES] = kani::any();
    let mut buf2: [u8; GNU_BYTES] = kani::any();
    let ok1 = run_gnu(&ctx, &mut buf1[..used]);
    let ok2 = run_gnu(&ctx, &mut buf2[..used]);
    assert!(ok1 && ok2, "exactly-sized .gnu.hash allocation rejected");
    // determinism w.r.t. prior buffer contents
    let j: usize = kani::any();
    kani::assume(j < used);
    assert!(buf1[j] == buf2[j], ".gnu.hash bytes depend on what the buffer held before");
    // header
    let b = &buf1[..used];
    assert!(rd32(b, 0) == nb && rd32(b, 4) == symbol_base && rd32(b, 8) == 1 && rd32(b, 12) == 6, "header fields differ");
    let maskwords = rd32(b, 8);
    assert!(maskwords != 0 && maskwords & (maskwords - 1) == 0, "bloom word count must be a power of two (glibc masks with maskwords-1)");
    let bloom_off = 16;
    let buckets_off = bloom_off + 8 * maskwords as usize;
    let chains_off = buckets_off + 4 * nb as usize;
    // glibc lookup for a symbolic defined symbol s
    let s: usize = kani::any();
    kani::assume(s < n);
    let h = hashes[s];
    let word = rd64(b, bloom_off + 8 * (((h / 64) & (maskwords - 1)) as usize));
    let bit1 = h & 63;
    let bit2 = (h >> rd32(b, 12)) & 63;
    assert!((word >> bit1) & (word >> bit2) & 1 == 1, "bloom filter rejects a defined symbol");
    let bucket = rd32(b, buckets_off + 4 * ((h % nb) as usize));
    assert!(bucket != 0, "bucket of a defined symbol is empty");
    assert!(bucket >= symbol_base && ((bucket - symbol_base) as usize) <= s, "bucket starts after the symbol");
    let start = (bucket - symbol_base) as usize;
    // walk: no stop bit strictly before s, hash match at s
    let k: usize = kani::any();
    kani::assume(k >= start && k < s);
    assert!(rd32(b, chains_off + 4 * k) & 1 == 0, "chain ends before reaching a defined symbol");
    // every entry on the way belongs to the same bucket (so the walk compares the right symbols)
    assert!(hashes[k] % nb == h % nb, "chain of one bucket contains a symbol of another bucket");
    let cw = rd32(b, chains_off + 4 * s);
    assert!((cw ^ h) >> 1 == 0, "chain word of a defined symbol does not carry its hash");
    // every run is terminated inside the table
    assert!(rd32(b, chains_off + 4 * (n - 1)) & 1 == 1, "last chain word lacks the stop bit: a walk can run off the table");
    // a stop bit never separates two symbols of the same bucket wrongly: stop bit set at k iff
    // k is the last symbol of its bucket
    let m: usize = kani::any();
    kani::assume(m < n);
    let last_of_bucket = m + 1 >= n || hashes[m + 1] % nb != hashes[m] % nb;
    assert!((rd32(b, chains_off + 4 * m) & 1 == 1) == last_of_bucket, "stop bit not exactly at the end of a bucket's run");
    // an empty bucket holds 0
    let e: u32 = kani::any();
    kani::assume(e < nb);
    let mut occupied = false;
    let mut i = 0;
    while i < N {
        if i < n && hashes[i] % nb == e {
            occupied = true;
        }
        i += 1;
    }
    if !occupied {
        assert!(rd32(b, buckets_off + 4 * e as usize) == 0, "empty bucket is not zero");
    }
}

#[kani::proof]
#[kani::unwind(20)]
#[kani::stub(alloc::fmt::format, stubs::verif_format_stub)]
fn c08_gnu_hash_lookup_finds_every_symbol_3_syms_2_buckets() {
    gnu_harness(3, 2);
}

#[kani::proof]
#[kani::unwind(20)]
#[kani::stub(alloc::fmt::format, stubs::verif_format_stub)]
fn c08_gnu_hash_lookup_finds_every_symbol_2_syms_1_bucket() {
    gnu_harness(2, 1);
}

#[kani::proof]
#[kani::unwind(20)]
#[kani::stub(alloc::fmt::format, stubs::verif_format_stub)]
fn c08_gnu_hash_lookup_finds_every_symbol_1_sym() {
    gnu_harness(1, 1);
}

// ---- SysV ----
const SYSV_MAXCHAIN: usize = N + 2;
const SYSV_BYTES: usize = 8 + 4 * NB + 4 * SYSV_MAXCHAIN;

fn run_sysv(ctx: &Ctx, buf: &mut [u8]) -> bool {
    let mut parts: Vec<&mut [u8]> = Vec::with_capacity(part_id::SYSV_HASH.as_usize() + 1);
    let mut k = 0;
    while k < part_id::SYSV_HASH.as_usize() {
        parts.push(&mut []);
        k += 1;
    }
    parts.push(buf);
    let mut buffers = OutputSectionPartMap { parts };
    let r = unsafe { write_sysv_hash_table(&*ctx.layout.as_ptr(), &*ctx.epilogue.as_ptr(), &mut buffers) };
    let ok = r.is_ok();
    core::mem::forget(r);
    core::mem::forget(buffers);
    ok
}

fn sysv_harness(n: usize, nb: u32) {
    // names are the fixed one-byte strings "a","b","c": ELF hash = the byte
    let dynsym_start: u32 = kani::any();
    kani::assume(dynsym_start >= 1 && dynsym_start <= 2); // null symbol + optional undefined imports first
    let chain_count = dynsym_start + n as u32;
    let ctx = make_ctx(n, &[0; N], None, Some(SysvHashLayout { bucket_count: nb, chain_count }), dynsym_start);
    let used = 8 + 4 * nb as usize + 4 * chain_count as usize;
    let mut buf1: [u8; SYSV_BYTES] = kani::any();
    let mut buf2: [u8; SYSV_BYTES] = kani::any();
    let ok1 = run_sysv(&ctx, &mut buf1[..used]);
    let ok2 = run_sysv(&ctx, &mut buf2[..used]);
    assert!(ok1 && ok2, "exactly-sized .hash allocation rejected");
    let j: usize = kani::any();
    kani::assume(j < used);
    assert!(buf1[j] == buf2[j], ".hash bytes depend on what the buffer held before");
    let b = &buf1[..used];
    assert!(rd32(b, 0) == nb && rd32(b, 4) == chain_count, "nbucket/nchain differ");
    let buckets_off = 8;
    let chains_off = 8 + 4 * nb as usize;
    // glibc: for (symidx = bucket[hash % nbucket]; symidx != STN_UNDEF; symidx = chain[symidx])
    let s: usize = kani::any();
    kani::assume(s < n);
    let h = object::elf::hash(NAMES[s]);
    let target = dynsym_start + s as u32;
    let mut idx = rd32(b, buckets_off + 4 * ((h % nb) as usize));
    let mut found = false;
    let mut steps = 0;
    while steps < SYSV_MAXCHAIN {
        if idx == 0 {
            break;
        }
        assert!(idx < chain_count, "chain index outside the table");
        if idx == target {
            found = true;
            break;
        }
        // every symbol on the walk hashes to the same bucket
        let other = (idx - dynsym_start) as usize;
        assert!(idx >= dynsym_start && other < n && object::elf::hash(NAMES[other]) % nb == h % nb, "chain of one bucket contains a symbol of another bucket");
        idx = rd32(b, chains_off + 4 * idx as usize);
        steps += 1;
    }
    assert!(found, "SysV hash lookup does not find a defined symbol");
}

#[kani::proof]
#[kani::unwind(20)]
#[kani::stub(alloc::fmt::format, stubs::verif_format_stub)]
#[kani::stub(std::backtrace::Backtrace::capture, stubs::verif_backtrace_stub)]
fn c08_sysv_hash_lookup_finds_every_symbol_3_syms_2_buckets() {
    sysv_harness(3, 2);
}

#[kani::proof]
#[kani::unwind(20)]
#[kani::stub(alloc::fmt::format, stubs::verif_format_stub)]
#[kani::stub(std::backtrace::Backtrace::capture, stubs::verif_backtrace_stub)]
fn c08_sysv_hash_lookup_finds_every_symbol_3_syms_1_bucket() {
    sysv_harness(3, 1);
}

// ---- layout side: bucket function and table geometry ----
#[kani::proof]
#[kani::unwind(2)]
#[kani::solver(z3)] // u32 % u32 with both operands symbolic is SAT-hard; CBMC's SMT2 back end with z3 decides it in seconds
fn c08_bucket_for_hash_is_mod_bucket_count() {
    let l = GnuHashLayout { num_defs: kani::any(), bucket_count: kani::any(), bloom_shift: 6, bloom_count: 1, symbol_base: kani::any() };
    kani::assume(l.bucket_count != 0);
    let h: u32 = kani::any();
    assert!(l.bucket_for_hash(h) == h % l.bucket_count && l.bucket_for_hash(h) < l.bucket_count);
}

#[kani::proof]
#[kani::unwind(20)]
#[kani::stub(alloc::fmt::format, stubs::verif_format_stub)]
fn c08_canary_two_symbols_share_a_bucket() {
    // must fail: reachable that the first chain word has no stop bit (two symbols in one bucket)
    let hashes: [u32; N] = kani::any();
    kani::assume(hashes[0] % 2 <= hashes[1] % 2 && hashes[1] % 2 <= hashes[2] % 2);
    let layout = GnuHashLayout { num_defs: 3, bucket_count: 2, bloom_shift: 6, bloom_count: 1, symbol_base: 1 };
    let ctx = make_ctx(3, &hashes, Some(layout), None, 0);
    let mut buf = [0u8; GNU_BYTES];
    let ok = run_gnu(&ctx, &mut buf[..]);
    assert!(!ok || rd32(&buf, 16 + 8 + 8) & 1 == 1, "canary");
}
