// C08, layout side: the geometry of .gnu.hash and the order of the dynamic symbols.
//
// Child module of libwild::elf.  Contract of the real create_gnu_hash_layout(args, kind, defs):
//   (geometry, for EVERY number of definitions n <= 65536)
//     Some(l) exactly when --hash-style includes gnu and the output is dynamic; then
//     l.num_defs == n, l.bucket_count >= 1, l.bloom_count is a POWER OF TWO >= 1 (glibc selects
//     the bloom word with `(hash / 64) & (maskwords - 1)` and asserts the count is a power of two
//     in _dl_setup_hash; wild's writer uses `% bloom_count`, the two agree only for powers of
//     two), l.bloom_shift < 64, and GnuHashLayout::allocate reserves exactly
//     16 + 8*bloom_count + 4*bucket_count + 4*num_defs bytes - the bytes write_gnu_hash_tables
//     consumes (its `debug_assert_eq!(rest.len(), 0)`);
//   (order, BOUNDED n = 4) afterwards the definitions are a permutation of the input ordered by
//     bucket_for_hash(hash) - the precondition of write_gnu_hash_tables' contract.
// The sort is rayon's par_sort_unstable_by_key, which Kani cannot run (threads).  It is replaced
// via #[kani::stub] on rayon's internal par_quicksort: by a no-op in the geometry obligation
// (the geometry does not depend on the order) and by a sequential insertion sort that uses the
// SAME comparison closure in the order obligation.  ASSUMED: rayon's parallel quicksort sorts.
use super::*;
use crate::args::elf::HashStyle;

const MAXN: usize = 1 << 16;

fn noop_sort<T: Send, F: Fn(&T, &T) -> bool + Sync>(_v: &mut [T], _is_less: F) {}

fn sequential_sort<T: Send, F: Fn(&T, &T) -> bool + Sync>(v: &mut [T], is_less: F) {
    let mut i = 1;
    while i < v.len() {
        let mut j = i;
        while j > 0 && is_less(&v[j], &v[j - 1]) {
            v.swap(j, j - 1);
            j -= 1;
        }
        i += 1;
    }
}

fn any_kind() -> OutputKind {
    let k: u8 = kani::any();
    match k % 6 {
        0 => OutputKind::StaticExecutable(crate::args::RelocationModel::NonRelocatable),
        1 => OutputKind::StaticExecutable(crate::args::RelocationModel::Relocatable),
        2 => OutputKind::DynamicExecutable(crate::args::RelocationModel::NonRelocatable),
        3 => OutputKind::DynamicExecutable(crate::args::RelocationModel::Relocatable),
        4 => OutputKind::SharedObject,
        _ => OutputKind::Relocatable,
    }
}

fn any_style() -> HashStyle {
    let k: u8 = kani::any();
    match k % 3 {
        0 => HashStyle::Gnu,
        1 => HashStyle::Sysv,
        _ => HashStyle::Both,
    }
}

#[kani::proof]
#[kani::unwind(42)]
#[kani::stub(rayon::slice::sort::par_quicksort, noop_sort)]
fn c08_gnu_hash_geometry_for_every_symbol_count() {
    let style = any_style();
    let kind = any_kind();
    let args = crate::args::elf::__verif_elf_args::partial_args_hash_style(style);
    let n: usize = kani::any();
    kani::assume(n <= MAXN);
    // the elements are never read (the sort is a no-op here): storage only
    let mut defs: Vec<DynamicSymbolDefinition<'static, Elf>> = Vec::with_capacity(MAXN);
    unsafe { defs.set_len(n) };
    let l = create_gnu_hash_layout(args, kind, &mut defs[..]);
    core::mem::forget(defs);
    assert!(l.is_some() == (style.includes_gnu() && kind.needs_dynamic()), ".gnu.hash produced exactly for gnu/both hash styles in dynamic outputs");
    let Some(l) = l else { return };
    assert!(l.num_defs as usize == n, "chain count differs from the number of definitions");
    assert!(l.bucket_count >= 1, "no buckets");
    assert!(l.bloom_count >= 1 && l.bloom_count & (l.bloom_count - 1) == 0, "bloom word count is not a power of two (glibc masks with maskwords-1)");
    assert!(l.bloom_shift < 64, "bloom shift out of range");
    let mut sizes: OutputSectionPartMap<u64> = OutputSectionPartMap::with_size(part_id::NUM_SINGLE_PART_SECTIONS as usize);
    l.allocate(&mut sizes);
    let want = 16 + 8 * l.bloom_count as u64 + 4 * l.bucket_count as u64 + 4 * l.num_defs as u64;
    assert!(*sizes.get(part_id::GNU_HASH) == want, ".gnu.hash allocation differs from header + bloom + buckets + chains");
}

static NAMES: [&[u8]; 4] = [b"a", b"b", b"c", b"d"];

// n = 4 is the smallest definition count for which create_gnu_hash_layout uses two buckets
// ((4 / 2).next_power_of_two() == 2), i.e. for which the order matters.
#[kani::proof]
#[kani::unwind(7)]
#[kani::stub(rayon::slice::sort::par_quicksort, sequential_sort)]
fn c08_definitions_are_ordered_by_bucket_4_symbols() {
    const N: usize = 4;
    let args = crate::args::elf::__verif_elf_args::partial_args_hash_style(HashStyle::Gnu);
    let hashes: [u32; N] = kani::any();
    let mut defs: Vec<DynamicSymbolDefinition<'static, Elf>> = Vec::with_capacity(N);
    let mut i = 0;
    while i < N {
        defs.push(DynamicSymbolDefinition {
            symbol_id: crate::symbol_db::SymbolId::undefined(),
            name: NAMES[i],
            format_specific: DynamicSymbolDefinitionExt { hash: hashes[i], version: 0 },
        });
        i += 1;
    }
    let l = create_gnu_hash_layout(args, OutputKind::SharedObject, &mut defs[..]);
    let Some(l) = l else {
        assert!(false, "no layout for a shared object with --hash-style=gnu");
        return;
    };
    assert!(l.bucket_count == 2);
    // ordered by bucket
    let mut i = 1;
    while i < N {
        assert!(l.bucket_for_hash(defs[i - 1].format_specific.hash) <= l.bucket_for_hash(defs[i].format_specific.hash), "definitions not ordered by hash bucket");
        i += 1;
    }
    // permutation: every input (name, hash) pair is still there exactly once (names are distinct)
    let k: usize = kani::any();
    kani::assume(k < N);
    let mut count = 0;
    let mut i = 0;
    while i < N {
        if defs[i].name[0] == NAMES[k][0] {
            count += 1;
            assert!(defs[i].format_specific.hash == hashes[k], "a definition's hash was separated from its name");
        }
        i += 1;
    }
    assert!(count == 1, "a definition was lost or duplicated by the sort");
    core::mem::forget(defs);
}
