// C14: x86-64 GOT and TLS relaxations preserve instruction semantics.
//
// Child module of libwild::elf_x86_64 (private fields of `Relaxation` and `TlsGdForm` are reachable
// through `super::`).  The functions under contract are
//     <ElfX86_64 as Arch>::new_relaxation           (libwild/src/elf_x86_64.rs)
//     TlsGdForm::identify                            (libwild/src/elf_x86_64.rs)
//     linker_utils::x86_64::RelaxationKind::{apply,next_modifier}
//     linker_utils::elf::RelocationKindInfo::write_to_buffer (through its C12 contract and, here,
//         executed for real on the 4-byte field)
// All are loop-free; inputs are a symbolic 24-byte window, symbolic offset, symbolic ValueFlags
// (16 bits), every OutputKind, symbolic symbol value S and section address.  Complete, no bound.
//
// Spec (written from the psABI, not from the code): a decoder for exactly the instruction forms
// the x86-64 psABI (B.2 "Optimize GOTPCRELX Relocations", 11.1 TLS transitions; APX REX2 per the
// APX supplement) allows these relocations on, and an evaluator giving the value each form feeds
// to its operation.
use super::*;
use crate::args::RelocationModel;
use crate::platform::Arch as _;
use crate::platform::Relaxation as _;
use linker_utils::elf::RelocationKind;

#[path = "__verif_stubs.rs"]
mod stubs;

const W: usize = 24; // window length

#[derive(Clone, Copy, PartialEq, Debug)]
enum Op {
    MovLoad, // 8b /r   mov  r, [rip+disp]
    AddMem,  // 03 /r
    SubMem,  // 2b /r
    CmpMem,  // 3b /r
    Lea,     // 8d /r   lea  r, [rip+disp]
    MovImm,  // c7 /0   mov  r/m, imm32
    AddImm,  // 81 /0
    SubImm,  // 81 /5
    CmpImm,  // 81 /7
    CallInd, // ff /2   call [rip+disp]
    JmpInd,  // ff /4   jmp  [rip+disp]
    CallRel, // (67) e8 rel32
    JmpRel,  // e9 rel32
}

#[derive(Clone, Copy, PartialEq, Debug)]
struct Insn {
    op: Op,
    w64: bool, // operand size 64 (REX.W / REX2.W)
    reg: u8,   // destination / operand register number 0..31
}

#[derive(Clone, Copy, PartialEq)]
enum Prefix {
    None,
    Rex,  // 0100WRXB at field-3
    Rex2, // d5 at field-4, payload M0 R4 X4 B4 W R3 X3 B3 at field-3
}

// Decode the instruction whose 4-byte disp/imm field starts at `f`.
fn decode(b: &[u8; W], f: usize, p: Prefix) -> Option<Insn> {
    if f < 2 || f + 4 > W {
        return None;
    }
    let opc = b[f - 2];
    let modrm = b[f - 1];
    let (w64, r3, r4, b3, b4) = match p {
        Prefix::None => (false, 0u8, 0u8, 0u8, 0u8),
        Prefix::Rex => {
            if f < 3 || b[f - 3] & 0xf0 != 0x40 {
                return None;
            }
            let rex = b[f - 3];
            (rex & 8 != 0, (rex >> 2) & 1, 0, rex & 1, 0)
        }
        Prefix::Rex2 => {
            if f < 4 || b[f - 4] != 0xd5 || b[f - 3] & 0x80 != 0 {
                return None;
            }
            let x = b[f - 3];
            (x & 8 != 0, (x >> 2) & 1, (x >> 6) & 1, x & 1, (x >> 4) & 1)
        }
    };
    let mem = modrm & 0xc7 == 0x05; // mod=00 rm=101: [rip+disp32]
    let direct = modrm & 0xc0 == 0xc0; // mod=11: register operand in rm
    let reg_field = ((modrm >> 3) & 7) | (r3 << 3) | (r4 << 4);
    let rm_field = (modrm & 7) | (b3 << 3) | (b4 << 4);
    let digit = (modrm >> 3) & 7;
    let insn = |op, reg| Some(Insn { op, w64, reg });
    match opc {
        0x8b if mem => insn(Op::MovLoad, reg_field),
        0x03 if mem => insn(Op::AddMem, reg_field),
        0x2b if mem => insn(Op::SubMem, reg_field),
        0x3b if mem => insn(Op::CmpMem, reg_field),
        0x8d if mem => insn(Op::Lea, reg_field),
        0xc7 if direct && digit == 0 => insn(Op::MovImm, rm_field),
        0x81 if direct && digit == 0 => insn(Op::AddImm, rm_field),
        0x81 if direct && digit == 5 => insn(Op::SubImm, rm_field),
        0x81 if direct && digit == 7 => insn(Op::CmpImm, rm_field),
        0xff if modrm == 0x15 && p == Prefix::None => insn(Op::CallInd, 0),
        0xff if modrm == 0x25 && p == Prefix::None => insn(Op::JmpInd, 0),
        _ => None,
    }
}

fn field(b: &[u8; W], f: usize) -> u32 {
    u32::from_le_bytes([b[f], b[f + 1], b[f + 2], b[f + 3]])
}

fn sext32(x: u32) -> u64 {
    x as i32 as i64 as u64
}

// Value the *original* instruction feeds to its operation when its GOT slot holds `s`.
fn eval_old(i: Insn, s: u64) -> (Op, u8, u64) {
    // an indirect call/jmp loads the full 64-bit slot; data operations load operand-size bits
    let v = if i.w64 || matches!(i.op, Op::CallInd | Op::JmpInd) { s } else { s & 0xffff_ffff };
    (i.op, i.reg, v)
}

// Value the *rewritten* instruction feeds, given its field content and the address after the field.
fn eval_new(i: Insn, fld: u32, next_ip: u64) -> (Op, u8, u64) {
    let v = match i.op {
        Op::Lea | Op::CallRel | Op::JmpRel => {
            let a = next_ip.wrapping_add(sext32(fld));
            if i.op == Op::Lea && !i.w64 { a & 0xffff_ffff } else { a }
        }
        // imm32 is sign-extended to 64 bits with REX.W, otherwise it is a 32-bit operation
        _ => if i.w64 { sext32(fld) } else { fld as u64 },
    };
    (i.op, i.reg, v)
}

// which rewritten operation corresponds to which original one
fn same_operation(old: Op, new: Op) -> bool {
    matches!(
        (old, new),
        (Op::MovLoad, Op::Lea) | (Op::MovLoad, Op::MovImm) | (Op::AddMem, Op::AddImm)
            | (Op::SubMem, Op::SubImm) | (Op::CmpMem, Op::CmpImm) | (Op::CallInd, Op::CallRel)
            | (Op::JmpInd, Op::JmpRel)
    )
}

fn any_output_kind() -> OutputKind {
    let k: u8 = kani::any();
    kani::assume(k < 6);
    match k {
        0 => OutputKind::StaticExecutable(RelocationModel::NonRelocatable),
        1 => OutputKind::StaticExecutable(RelocationModel::Relocatable),
        2 => OutputKind::DynamicExecutable(RelocationModel::NonRelocatable),
        3 => OutputKind::DynamicExecutable(RelocationModel::Relocatable),
        4 => OutputKind::SharedObject,
        _ => OutputKind::Relocatable,
    }
}

fn any_flags() -> ValueFlags {
    ValueFlags::from_bits_retain(kani::any())
}

fn relax(r_type: u32, b: &[u8; W], f: usize, flags: ValueFlags, ok: OutputKind, sf: SectionFlags)
    -> Option<Relaxation> {
    ElfX86_64::new_relaxation(r_type, &b[..], f as u64, flags, ok, sf, kani::any(), None)
}

// The few lines of elf_writer.rs::apply_relocation between Relaxation::apply and write_to_buffer
// (not reachable: they sit in a 470-line generic function over Layout).  ASSUMED, listed in the
// evidence: value = S + A for Absolute, S + A - place for Relative.
fn caller_value(kind: RelocationKind, s: u64, addend: i64, place: u64) -> Option<u64> {
    match kind {
        RelocationKind::Absolute => Some(s.wrapping_add(addend as u64)),
        RelocationKind::Relative => Some(s.wrapping_add(addend as u64).wrapping_sub(place)),
        _ => None,
    }
}

// ----------------------------------------------------------------------------------------------
// GOTPCRELX class: semantic lemma
// ----------------------------------------------------------------------------------------------

fn gotpcrelx_semantics(r_type: u32, p: Prefix) {
    let b0: [u8; W] = kani::any();
    let f: usize = kani::any();
    kani::assume(f >= 4 && f <= 8);
    // precondition: the bytes are an instruction form the psABI permits this relocation on
    let Some(old) = decode(&b0, f, p) else { return };
    kani::assume(matches!(old.op, Op::MovLoad | Op::AddMem | Op::SubMem | Op::CmpMem | Op::CallInd | Op::JmpInd));
    if r_type == object::elf::R_X86_64_CODE_4_GOTPCRELX {
        kani::assume(p == Prefix::Rex2);
    }
    let flags = any_flags();
    let okind = any_output_kind();
    let Some(r) = relax(r_type, &b0, f, flags, okind, shf::EXECINSTR) else { return };
    if matches!(r.kind, RelaxationKind::NoOp) {
        return;
    }
    // symbol-class guard (from the property: the rewrite is only applied where the symbol's final
    // value is the link-time value)
    assert!(!flags.is_ifunc());
    let to_abs = matches!(
        r.kind,
        RelaxationKind::MovIndirectToAbsolute | RelaxationKind::RexMovIndirectToAbsolute(_)
            | RelaxationKind::RexSubIndirectToAbsolute(_) | RelaxationKind::RexCmpIndirectToAbsolute(_)
            | RelaxationKind::RexAddIndirectToAbsolute(_)
    );
    if to_abs {
        assert!(
            (flags.is_absolute() && !flags.is_dynamic()) || (flags.is_address() && !okind.is_relocatable()),
            "absolute rewrite applied to a symbol whose value is not a link-time constant"
        );
    } else {
        assert!(!flags.is_interposable(), "GOT bypass applied to an interposable symbol");
    }
    // apply
    let mut b1 = b0;
    let mut off = f as u64;
    let mut addend: i64 = -4; // psABI: the field is the last 4 bytes of these forms
    r.kind.apply(&mut b1[..], &mut off, &mut addend);
    let f1 = off as usize;
    assert!(f1 + 4 <= W && f1 >= 1);
    // frame: nothing outside the instruction changes
    let i: usize = kani::any();
    kani::assume(i < W);
    let start = match p { Prefix::None => f - 2, Prefix::Rex => f - 3, Prefix::Rex2 => f - 4 };
    if i < start || i >= f + 4 {
        assert!(b1[i] == b0[i], "frame: byte outside the rewritten instruction changed");
    }
    if p == Prefix::Rex2 {
        assert!(b1[f - 4] == 0xd5);
    }
    // the relocation the caller will now apply
    let s: u64 = kani::any();
    let sec: u64 = kani::any();
    kani::assume(sec <= u64::MAX / 2);
    let place = sec + f1 as u64;
    let Some(v) = caller_value(r.rel_info.kind, s, addend, place) else {
        assert!(false, "unexpected relocation kind after GOTPCRELX relaxation");
        return;
    };
    let res = r.rel_info.write_to_buffer(v, &mut b1[f1..]);
    let ok = res.is_ok();
    core::mem::forget(res);
    if !ok {
        return; // the link fails with an overflow diagnostic (C12): no instruction is produced
    }
    // decode the rewritten instruction
    let new = match r.kind {
        RelaxationKind::CallIndirectToRelative => {
            assert!(b1[f - 2] == 0x67 && b1[f - 1] == 0xe8 && f1 == f);
            Insn { op: Op::CallRel, w64: old.w64, reg: 0 }
        }
        RelaxationKind::JmpIndirectToRelative => {
            assert!(b1[f - 2] == 0xe9 && f1 == f - 1 && b1[f + 3] == 0x90);
            Insn { op: Op::JmpRel, w64: old.w64, reg: 0 }
        }
        _ => {
            assert!(f1 == f);
            let Some(n) = decode(&b1, f, p) else {
                assert!(false, "rewritten bytes are not a valid instruction of the expected form");
                return;
            };
            n
        }
    };
    assert!(same_operation(old.op, new.op), "operation changed");
    let next_ip = place.wrapping_add(4);
    let (_, old_reg, old_val) = eval_old(old, s);
    let (_, new_reg, new_val) = eval_new(new, field(&b1, f1), next_ip);
    assert!(old_reg == new_reg, "destination/operand register changed");
    assert!(old.w64 == new.w64, "operand size changed");
    assert!(old_val == new_val, "rewritten instruction computes a different value");
}

#[kani::proof]
#[kani::unwind(9)]
#[kani::stub(alloc::fmt::format, stubs::verif_format_stub)]
#[kani::stub(std::backtrace::Backtrace::capture, stubs::verif_backtrace_stub)]
fn c14_gotpcrelx_norex_semantics() {
    gotpcrelx_semantics(object::elf::R_X86_64_GOTPCRELX, Prefix::None);
}

#[kani::proof]
#[kani::unwind(9)]
#[kani::stub(alloc::fmt::format, stubs::verif_format_stub)]
#[kani::stub(std::backtrace::Backtrace::capture, stubs::verif_backtrace_stub)]
fn c14_gotpcrel_semantics() {
    gotpcrelx_semantics(object::elf::R_X86_64_GOTPCREL, Prefix::None);
}

#[kani::proof]
#[kani::unwind(9)]
#[kani::stub(alloc::fmt::format, stubs::verif_format_stub)]
#[kani::stub(std::backtrace::Backtrace::capture, stubs::verif_backtrace_stub)]
fn c14_rex_gotpcrelx_semantics() {
    gotpcrelx_semantics(object::elf::R_X86_64_REX_GOTPCRELX, Prefix::Rex);
}

#[kani::proof]
#[kani::unwind(9)]
#[kani::stub(alloc::fmt::format, stubs::verif_format_stub)]
#[kani::stub(std::backtrace::Backtrace::capture, stubs::verif_backtrace_stub)]
fn c14_code4_gotpcrelx_rex2_semantics() {
    gotpcrelx_semantics(object::elf::R_X86_64_CODE_4_GOTPCRELX, Prefix::Rex2);
}

// ----------------------------------------------------------------------------------------------
// GOTTPOFF (initial-exec -> local-exec)
// ----------------------------------------------------------------------------------------------

fn gottpoff_semantics(r_type: u32, p: Prefix) {
    let b0: [u8; W] = kani::any();
    let f: usize = kani::any();
    kani::assume(f >= 4 && f <= 8);
    let Some(old) = decode(&b0, f, p) else { return };
    kani::assume(matches!(old.op, Op::MovLoad | Op::AddMem));
    kani::assume(old.w64); // psABI: movq / addq foo@gottpoff(%rip), %reg
    let flags = any_flags();
    let okind = any_output_kind();
    let Some(r) = relax(r_type, &b0, f, flags, okind, shf::EXECINSTR) else { return };
    // IE -> LE only in executables and only for non-interposable symbols
    assert!(okind.is_executable() && !flags.is_interposable());
    assert!(matches!(r.rel_info.kind, RelocationKind::TpOff));
    let mut b1 = b0;
    let mut off = f as u64;
    let mut addend: i64 = -4;
    r.kind.apply(&mut b1[..], &mut off, &mut addend);
    assert!(off as usize == f && addend == 0);
    let tpoff: u64 = kani::any(); // S - TP, what RelocationKind::TpOff evaluates to
    let res = r.rel_info.write_to_buffer(tpoff, &mut b1[f..]);
    let ok = res.is_ok();
    core::mem::forget(res);
    if !ok {
        return;
    }
    let Some(new) = decode(&b1, f, p) else {
        assert!(false, "rewritten bytes are not a valid instruction");
        return;
    };
    assert!(same_operation(old.op, new.op));
    assert!(new.reg == old.reg && new.w64);
    // the GOT slot held tpoff; the immediate must evaluate to the same 64-bit value
    assert!(eval_new(new, field(&b1, f), 0).2 == tpoff);
    let i: usize = kani::any();
    kani::assume(i < W);
    let start = if p == Prefix::Rex2 { f - 4 } else { f - 3 };
    if i < start || i >= f + 4 {
        assert!(b1[i] == b0[i]);
    }
}

#[kani::proof]
#[kani::unwind(9)]
#[kani::stub(alloc::fmt::format, stubs::verif_format_stub)]
#[kani::stub(std::backtrace::Backtrace::capture, stubs::verif_backtrace_stub)]
fn c14_gottpoff_rex_semantics() {
    gottpoff_semantics(object::elf::R_X86_64_GOTTPOFF, Prefix::Rex);
}

#[kani::proof]
#[kani::unwind(9)]
#[kani::stub(alloc::fmt::format, stubs::verif_format_stub)]
#[kani::stub(std::backtrace::Backtrace::capture, stubs::verif_backtrace_stub)]
fn c14_code4_gottpoff_rex2_semantics() {
    gottpoff_semantics(object::elf::R_X86_64_CODE_4_GOTTPOFF, Prefix::Rex2);
}

// ----------------------------------------------------------------------------------------------
// TLS GD / LD / TLSDESC transitions: byte-exact against the ABI's documented sequences
// ----------------------------------------------------------------------------------------------

fn window_with(f: usize, before: &[u8], after: &[u8]) -> [u8; W] {
    let mut b: [u8; W] = kani::any();
    let mut i = 0;
    while i < before.len() {
        b[f - before.len() + i] = before[i];
        i += 1;
    }
    let mut i = 0;
    while i < after.len() {
        b[f + 4 + i] = after[i];
        i += 1;
    }
    b
}

fn check_bytes(b1: &[u8; W], b0: &[u8; W], at: usize, expect: &[u8], reloc_hole: Option<(usize, usize)>) {
    let i: usize = kani::any();
    kani::assume(i < W);
    if i >= at && i < at + expect.len() {
        let in_hole = match reloc_hole { Some((a, z)) => i >= a && i < z, None => false };
        if !in_hole {
            assert!(b1[i] == expect[i - at], "replacement sequence differs from the ABI's");
        }
    } else {
        assert!(b1[i] == b0[i], "frame: byte outside the TLS sequence changed");
    }
}

#[kani::proof]
#[kani::unwind(25)]
fn c14_tlsgd_to_local_exec() {
    // psABI 11.1.1 GD -> LE:
    //   66 48 8d 3d <x@tlsgd>   66 66 48 e8 <__tls_get_addr@plt>
    //   -> 64 48 8b 04 25 00 00 00 00 (mov %fs:0,%rax)  48 8d 80 <x@tpoff> (lea x@tpoff(%rax),%rax)
    let f: usize = 6;
    let b0 = window_with(f, &[0x66, 0x48, 0x8d, 0x3d], &[0x66, 0x66, 0x48, 0xe8]);
    let flags = any_flags();
    let okind = any_output_kind();
    let r = relax(object::elf::R_X86_64_TLSGD, &b0, f, flags, okind, shf::EXECINSTR);
    if okind.is_executable() {
        let Some(r) = r else { return };
        let mut b1 = b0;
        let mut off = f as u64;
        let mut addend: i64 = -4;
        r.kind.apply(&mut b1[..], &mut off, &mut addend);
        if !flags.is_interposable() {
            assert!(matches!(r.kind, RelaxationKind::TlsGdToLocalExec));
            assert!(matches!(r.rel_info.kind, RelocationKind::TpOff));
            assert!(off == f as u64 + 8 && addend == 0);
            check_bytes(&b1, &b0, f - 4,
                &[0x64, 0x48, 0x8b, 0x04, 0x25, 0, 0, 0, 0, 0x48, 0x8d, 0x80, 0, 0, 0, 0],
                Some((f + 8, f + 12)));
        } else {
            // GD -> IE: mov %fs:0,%rax ; add x@gottpoff(%rip),%rax
            assert!(matches!(r.kind, RelaxationKind::TlsGdToInitialExec));
            assert!(matches!(r.rel_info.kind, RelocationKind::GotTpOff));
            assert!(off == f as u64 + 8 && addend == -4);
            check_bytes(&b1, &b0, f - 4,
                &[0x64, 0x48, 0x8b, 0x04, 0x25, 0, 0, 0, 0, 0x48, 0x03, 0x05, 0, 0, 0, 0],
                Some((f + 8, f + 12)));
        }
        // the paired __tls_get_addr relocation must be skipped
        assert!(matches!(r.kind.next_modifier(), RelocationModifier::SkipNextRelocation));
    } else {
        assert!(r.is_none(), "TLS GD must not be relaxed in a shared object / relocatable output");
    }
}

#[kani::proof]
#[kani::unwind(25)]
fn c14_tlsld_to_local_exec() {
    // psABI 11.1.3 LD -> LE:  48 8d 3d <x@tlsld>  e8 <__tls_get_addr@plt>
    //   -> 66 66 66 64 48 8b 04 25 00 00 00 00   (mov %fs:0,%rax, padded)
    let f: usize = 6;
    let tail: u8 = kani::any();
    let b0 = window_with(f, &[0x48, 0x8d, 0x3d], &[0xe8, tail]);
    let okind = any_output_kind();
    let r = relax(object::elf::R_X86_64_TLSLD, &b0, f, any_flags(), okind, shf::EXECINSTR);
    if okind.is_executable() {
        let Some(r) = r else { return };
        assert!(matches!(r.kind, RelaxationKind::TlsLdToLocalExec));
        assert!(matches!(r.rel_info.kind, RelocationKind::None));
        let mut b1 = b0;
        let mut off = f as u64;
        let mut addend: i64 = -4;
        r.kind.apply(&mut b1[..], &mut off, &mut addend);
        check_bytes(&b1, &b0, f - 3, &[0x66, 0x66, 0x66, 0x64, 0x48, 0x8b, 0x04, 0x25, 0, 0, 0, 0], None);
        assert!(matches!(r.kind.next_modifier(), RelocationModifier::SkipNextRelocation));
    } else {
        assert!(r.is_none());
    }
}

#[kani::proof]
#[kani::unwind(25)]
fn c14_tlsld_to_local_exec_noplt() {
    // LD -> LE with call *__tls_get_addr@GOTPCREL(%rip):  48 8d 3d <x@tlsld>  ff 15 <got>
    //   -> 66 66 66 66 64 48 8b 04 25 00 00 00 00
    let f: usize = 6;
    let b0 = window_with(f, &[0x48, 0x8d, 0x3d], &[0xff, 0x15]);
    let okind = any_output_kind();
    let r = relax(object::elf::R_X86_64_TLSLD, &b0, f, any_flags(), okind, shf::EXECINSTR);
    if okind.is_executable() {
        let Some(r) = r else { return };
        assert!(matches!(r.kind, RelaxationKind::TlsLdToLocalExecNoPlt));
        let mut b1 = b0;
        let mut off = f as u64;
        let mut addend: i64 = -4;
        r.kind.apply(&mut b1[..], &mut off, &mut addend);
        check_bytes(&b1, &b0, f - 3,
            &[0x66, 0x66, 0x66, 0x66, 0x64, 0x48, 0x8b, 0x04, 0x25, 0, 0, 0, 0], None);
        assert!(matches!(r.kind.next_modifier(), RelocationModifier::SkipNextRelocation));
    } else {
        assert!(r.is_none());
    }
}

#[kani::proof]
#[kani::unwind(25)]
#[kani::stub(alloc::fmt::format, stubs::verif_format_stub)]
#[kani::stub(std::backtrace::Backtrace::capture, stubs::verif_backtrace_stub)]
fn c14_tlsdesc_to_local_exec_keeps_register() {
    // 48/4c 8d /r  lea x@tlsdesc(%rip),%reg  ->  48/49 c7 c0+reg <x@tpoff>  mov $x@tpoff,%reg
    let f: usize = 6;
    let b0: [u8; W] = kani::any();
    kani::assume(b0[f - 3] == 0x48 || b0[f - 3] == 0x4c);
    kani::assume(b0[f - 2] == 0x8d && b0[f - 1] & 0xc7 == 0x05);
    let old = decode(&b0, f, Prefix::Rex).unwrap();
    let flags = any_flags();
    let okind = any_output_kind();
    let r = relax(object::elf::R_X86_64_GOTPC32_TLSDESC, &b0, f, flags, okind, shf::EXECINSTR);
    if !okind.is_executable() {
        assert!(r.is_none());
        return;
    }
    let Some(r) = r else { return };
    let mut b1 = b0;
    let mut off = f as u64;
    let mut addend: i64 = -4;
    r.kind.apply(&mut b1[..], &mut off, &mut addend);
    assert!(off == f as u64);
    let i: usize = kani::any();
    kani::assume(i < W);
    if i < f - 3 || i >= f + 4 {
        assert!(b1[i] == b0[i], "frame");
    }
    if !flags.is_interposable() {
        assert!(matches!(r.kind, RelaxationKind::TlsDescToLocalExec(3)));
        assert!(matches!(r.rel_info.kind, RelocationKind::TpOff) && addend == 0);
        let tpoff: u64 = kani::any();
        let res = r.rel_info.write_to_buffer(tpoff, &mut b1[f..]);
        let ok = res.is_ok();
        core::mem::forget(res);
        if ok {
            let new = decode(&b1, f, Prefix::Rex);
            assert!(new == Some(Insn { op: Op::MovImm, w64: true, reg: old.reg }), "TLSDESC->LE changed the register");
            assert!(eval_new(new.unwrap(), field(&b1, f), 0).2 == tpoff);
        }
    } else {
        // TLSDESC -> IE: mov x@gottpoff(%rip),%reg
        assert!(matches!(r.kind, RelaxationKind::TlsDescToInitialExec));
        assert!(matches!(r.rel_info.kind, RelocationKind::GotTpOff) && addend == -4);
        let new = decode(&b1, f, Prefix::Rex);
        assert!(new == Some(Insn { op: Op::MovLoad, w64: true, reg: old.reg }), "TLSDESC->IE changed the register");
    }
    assert!(matches!(r.kind.next_modifier(), RelocationModifier::Normal));
}

#[kani::proof]
#[kani::unwind(25)]
fn c14_tlsdesc_call_becomes_nop() {
    // ff 10 call *(%rax) -> 66 90 xchg %ax,%ax; conditions mirror GOTPC32_TLSDESC's
    let f: usize = 6;
    let mut b0: [u8; W] = kani::any();
    b0[f] = 0xff;
    b0[f + 1] = 0x10;
    let okind = any_output_kind();
    let r = relax(object::elf::R_X86_64_TLSDESC_CALL, &b0, f, any_flags(), okind, shf::EXECINSTR);
    if r.is_some() {
        assert!(okind.is_executable(), "TLSDESC call removed although the descriptor is still used");
    }
    if let Some(r) = r {
        let mut b1 = b0;
        let mut off = f as u64;
        let mut addend: i64 = 0;
        r.kind.apply(&mut b1[..], &mut off, &mut addend);
        check_bytes(&b1, &b0, f, &[0x66, 0x90], None);
        assert!(matches!(r.rel_info.kind, RelocationKind::None));
    }
}

// The TLS descriptor sequence is two relocated instructions,
//     lea  x@tlsdesc(%rip), %rax      R_X86_64_GOTPC32_TLSDESC
//     call *x@tlscall(%rax)           R_X86_64_TLSDESC_CALL
// and leaves x's TP offset in %rax only if BOTH are rewritten or NEITHER is: a rewritten lea with
// the call left in place calls through a TP offset, an untouched lea followed by a removed call
// leaves the descriptor's address in %rax.  The callers (apply_relocation, relaxation scanning)
// apply a relaxation exactly when `args.relax || relaxation.is_mandatory()`, so for every symbol
// class, output kind and --relax/--no-relax the two decisions must agree.
#[kani::proof]
#[kani::unwind(25)]
fn c14_tlsdesc_lea_and_call_are_rewritten_together() {
    let mut b0: [u8; W] = kani::any();
    let f: usize = 6; // lea's disp32 at 6..10, call at 10..12
    // psABI 11.1: REX.W lea (48 8d /r or 4c 8d /r with modrm = [rip+disp32])
    kani::assume((b0[f - 3] == 0x48 || b0[f - 3] == 0x4c) && b0[f - 2] == 0x8d && b0[f - 1] & 0xc7 == 0x05);
    b0[10] = 0xff;
    b0[11] = 0x10;
    let flags = any_flags();
    let okind = any_output_kind();
    let relax_enabled: bool = kani::any();
    let lea = relax(object::elf::R_X86_64_GOTPC32_TLSDESC, &b0, f, flags, okind, shf::EXECINSTR);
    let call = relax(object::elf::R_X86_64_TLSDESC_CALL, &b0, 10, flags, okind, shf::EXECINSTR);
    let lea_applied = match &lea { Some(r) => relax_enabled || r.is_mandatory(), None => false };
    let call_applied = match &call { Some(r) => relax_enabled || r.is_mandatory(), None => false };
    assert!(lea_applied == call_applied, "the TLS descriptor lea and its call are not rewritten together");
}

#[kani::proof]
fn c14_next_modifier_skips_exactly_the_paired_call() {
    // every kind whose replacement swallows the following __tls_get_addr call must skip its
    // relocation, and no other kind may
    let k: u8 = kani::any();
    let n: u8 = kani::any();
    let (kind, swallows) = match k % 20 {
        0 => (RelaxationKind::MovIndirectToLea, false),
        1 => (RelaxationKind::MovIndirectToAbsolute, false),
        2 => (RelaxationKind::RexMovIndirectToAbsolute(n), false),
        3 => (RelaxationKind::RexAddIndirectToAbsolute(n), false),
        4 => (RelaxationKind::RexSubIndirectToAbsolute(n), false),
        5 => (RelaxationKind::RexCmpIndirectToAbsolute(n), false),
        6 => (RelaxationKind::CallIndirectToRelative, false),
        7 => (RelaxationKind::JmpIndirectToRelative, false),
        8 => (RelaxationKind::NoOp, false),
        9 => (RelaxationKind::TlsGdToLocalExec, true),
        10 => (RelaxationKind::TlsGdToLocalExecLarge, true),
        11 => (RelaxationKind::TlsLdToLocalExec, true),
        12 => (RelaxationKind::TlsLdToLocalExecNoPlt, true),
        13 => (RelaxationKind::TlsLdToLocalExec64, true),
        14 => (RelaxationKind::TlsGdToInitialExec, true),
        15 => (RelaxationKind::TlsDescToLocalExec(n), false),
        16 => (RelaxationKind::TlsDescToInitialExec, false),
        _ => (RelaxationKind::SkipTlsDescCall, false),
    };
    assert!(matches!(kind.next_modifier(), RelocationModifier::SkipNextRelocation) == swallows);
}

// ----------------------------------------------------------------------------------------------
// guards that hold for every relocation type
// ----------------------------------------------------------------------------------------------

#[kani::proof]
#[kani::unwind(9)]
fn c14_only_executable_sections_and_never_interposable() {
    let b0: [u8; W] = kani::any();
    let f: usize = kani::any();
    kani::assume(f >= 6 && f <= 8);
    let r_type: u32 = kani::any();
    let flags = any_flags();
    let okind = any_output_kind();
    let sf = SectionFlags::from_u32(kani::any());
    let Some(r) = relax(r_type, &b0, f, flags, okind, sf) else { return };
    if flags.is_ifunc() {
        // the only change allowed for an ifunc is PC32 -> PLT32 (forces the PLT)
        assert!(r_type == object::elf::R_X86_64_PC32 && matches!(r.kind, RelaxationKind::NoOp) && r.mandatory);
        return;
    }
    assert!(sf.contains(shf::EXECINSTR), "instruction rewrite in a non-executable section");
    // a rewrite that bypasses the GOT/PLT/TLS-descriptor is never applied to an interposable symbol
    let keeps_indirection = matches!(
        r.kind,
        RelaxationKind::TlsGdToInitialExec | RelaxationKind::TlsDescToInitialExec
            | RelaxationKind::SkipTlsDescCall | RelaxationKind::TlsLdToLocalExec
            | RelaxationKind::TlsLdToLocalExecNoPlt | RelaxationKind::TlsLdToLocalExec64
    );
    if !keeps_indirection {
        let abs_ok = (flags.is_absolute() && !flags.is_dynamic()) || (flags.is_address() && !okind.is_relocatable());
        assert!(!flags.is_interposable() || abs_ok, "GOT/PLT bypass for an interposable symbol");
    }
}

// ----------------------------------------------------------------------------------------------
// vacuity canaries (must fail)
// ----------------------------------------------------------------------------------------------

#[kani::proof]
#[kani::unwind(9)]
fn c14_canary_rex_mov_to_absolute_reachable() {
    let b0: [u8; W] = kani::any();
    let f: usize = 6;
    kani::assume(decode(&b0, f, Prefix::Rex).is_some());
    let r = relax(object::elf::R_X86_64_REX_GOTPCRELX, &b0, f, any_flags(), any_output_kind(), shf::EXECINSTR);
    assert!(!matches!(r, Some(Relaxation { kind: RelaxationKind::RexMovIndirectToAbsolute(_), .. })), "canary: must fail");
}

#[kani::proof]
#[kani::unwind(25)]
fn c14_canary_tls_sequences_reachable() {
    let f: usize = 6;
    let b0 = window_with(f, &[0x66, 0x48, 0x8d, 0x3d], &[0x66, 0x66, 0x48, 0xe8]);
    let r1 = relax(object::elf::R_X86_64_TLSGD, &b0, f, any_flags(), any_output_kind(), shf::EXECINSTR);
    let b2 = window_with(f, &[0x48, 0x8d, 0x3d], &[0xe8, 0]);
    let r2 = relax(object::elf::R_X86_64_TLSLD, &b2, f, any_flags(), any_output_kind(), shf::EXECINSTR);
    assert!(r1.is_none() || r2.is_none(), "canary: must fail");
}

#[kani::proof]
#[kani::unwind(9)]
fn c14_canary_rex2_lea_reachable() {
    let b0: [u8; W] = kani::any();
    let f: usize = 6;
    kani::assume(decode(&b0, f, Prefix::Rex2).is_some());
    let r = relax(object::elf::R_X86_64_CODE_4_GOTPCRELX, &b0, f, any_flags(), any_output_kind(), shf::EXECINSTR);
    assert!(!matches!(r, Some(Relaxation { kind: RelaxationKind::MovIndirectToLea, .. })), "canary: must fail");
}
