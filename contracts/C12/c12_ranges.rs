// C12: relocation overflow is reported exactly when a value doesn't fit.
//
// Child module of linker_utils (appended to src/lib.rs).  Contracts are stated in harness form
// (assume precondition; call the real function; assert postcondition) because the functions are
// `const fn`s or return anyhow::Result, which Kani 0.68's contract attributes cannot wrap
// (closures in const fn; stub_verified needs an Arbitrary return type).
//
// Oracles:
//   x86-64 : accept sets of GNU ld (bfd elf64-x86-64.c howto table, complain_overflow_*) and lld
//            (ELF/Arch/X86_64.cpp relocate(): checkInt / checkUInt / checkIntUInt), transcribed in
//            x86_spec() below.
//   AArch64: aaelf64 (2024Q3) section 5.7 "overflow check" column, which both linkers implement
//            (lld AArch64.cpp checkInt/checkUInt/checkIntUInt; bfd elfnn-aarch64.c howto table),
//            transcribed in a64_spec() below.  Rows whose check I could not transcribe with
//            confidence carry Check::Unknown and get only the oracle-free obligations.
use crate::elf::AArch64Instruction as A;
use crate::elf::AllowedRange;
use crate::elf::BitMask;
use crate::elf::RelocationKindInfo;
use crate::elf::RelocationSize;
use crate::elf::Sign;
use object::elf as e;

#[path = "__verif_stubs.rs"]
mod stubs;

// ---------------------------------------------------------------------------------------------
// AllowedRange
// ---------------------------------------------------------------------------------------------

#[kani::proof]
#[kani::unwind(8)]
fn c12_from_bit_size_is_the_mathematical_interval() {
    let n: usize = kani::any();
    let signed: bool = kani::any();
    kani::assume(n <= 64);
    // documented precondition: 2^63 is not representable, the const fn panics by design
    kani::assume(!(n == 63 && !signed));
    let r = AllowedRange::from_bit_size(n, if signed { Sign::Signed } else { Sign::Unsigned });
    if n == 0 || n == 64 {
        assert!(r.min == i64::MIN && r.max == i64::MAX);
    } else if signed {
        assert!(r.min == -(1i64 << (n - 1)) && r.max == (1i64 << (n - 1)));
    } else {
        assert!(r.min == 0 && r.max == (1i64 << n));
    }
    assert!(AllowedRange::no_check().min == i64::MIN && AllowedRange::no_check().max == i64::MAX);
}

#[kani::proof]
#[kani::unwind(8)]
fn c12_from_byte_size_is_from_bit_size() {
    let n: usize = kani::any();
    let signed: bool = kani::any();
    kani::assume(n <= 8);
    let s = if signed { Sign::Signed } else { Sign::Unsigned };
    assert!(AllowedRange::from_byte_size(n, s) == AllowedRange::from_bit_size(8 * n, s));
}

#[kani::proof]
fn c12_contains_is_half_open_interval_membership() {
    let min: i64 = kani::any();
    let max: i64 = kani::any();
    let v: i64 = kani::any();
    let r = AllowedRange::new(min, max);
    assert!(r.min == min && r.max == max);
    // half-open, except that max == i64::MAX (the unchecked range) has no upper limit: every i64
    // must be acceptable to a 64-bit field
    assert!(r.contains(v) == (min <= v && (v < max || max == i64::MAX)));
    assert!(AllowedRange::no_check().contains(v));
}

// ---------------------------------------------------------------------------------------------
// RelocationKindInfo::write_to_buffer / verify  (ByteSize rows; BitMasking rows under C13/C01)
// ---------------------------------------------------------------------------------------------

fn any_bytesize_info() -> (RelocationKindInfo, usize) {
    let k: usize = kani::any();
    kani::assume(k == 0 || k == 1 || k == 2 || k == 4 || k == 8);
    let alignment: usize = kani::any();
    kani::assume(alignment == 1 || alignment == 2 || alignment == 4 || alignment == 8 || alignment == 16);
    let info = RelocationKindInfo {
        kind: crate::elf::RelocationKind::Absolute,
        size: RelocationSize::ByteSize(k),
        mask: None,
        range: AllowedRange::new(kani::any(), kani::any()),
        alignment,
        bias: 0,
        thunkable: false,
    };
    (info, k)
}

#[kani::proof]
#[kani::unwind(17)]
#[kani::stub(alloc::fmt::format, stubs::verif_format_stub)]
#[kani::stub(std::backtrace::Backtrace::capture, stubs::verif_backtrace_stub)]
fn c12_write_to_buffer_bytesize_contract() {
    let (info, k) = any_bytesize_info();
    let v: u64 = kani::any();
    let before: [u8; 16] = kani::any();
    let mut buf = before;
    let len: usize = kani::any();
    kani::assume(len <= 16);
    let res = info.write_to_buffer(v, &mut buf[..len]);
    let ok = res.is_ok();
    core::mem::forget(res);
    let aligned = (v as usize) % info.alignment == 0;
    let in_range = info.range.min <= (v as i64)
        && ((v as i64) < info.range.max || info.range.max == i64::MAX);
    // Ok exactly when aligned, in range and the field fits the buffer
    assert!(ok == (aligned && in_range && k <= len), "Ok <==> aligned && in range && fits");
    let le = v.to_le_bytes();
    let i: usize = kani::any();
    kani::assume(i < 16);
    if ok && i < k {
        assert!(buf[i] == le[i], "written bytes are the little-endian value");
    } else {
        assert!(buf[i] == before[i], "frame: nothing else changes (and nothing at all on Err)");
    }
}

// ---------------------------------------------------------------------------------------------
// x86-64 table lemma
// ---------------------------------------------------------------------------------------------

#[derive(Clone, Copy, PartialEq)]
enum Chk {
    Dont,            // no overflow check (64-bit fields)
    Signed,          // -2^(n-1) <= v < 2^(n-1)
    Unsigned,        // 0 <= v < 2^n
    Bitfield,        // -2^(n-1) <= v < 2^n   (bfd complain_overflow_bitfield, lld checkIntUInt)
}

fn accepts(c: Chk, bytes: usize, v: i64) -> bool {
    if bytes == 0 || bytes == 8 {
        return true;
    }
    let n = 8 * bytes as u32;
    match c {
        Chk::Dont => true,
        Chk::Signed => -(1i64 << (n - 1)) <= v && v < (1i64 << (n - 1)),
        Chk::Unsigned => 0 <= v && v < (1i64 << n),
        Chk::Bitfield => -(1i64 << (n - 1)) <= v && v < (1i64 << n),
    }
}

// (field bytes, GNU ld check, lld check)
fn x86_spec(r_type: u32) -> Option<(usize, Chk, Chk)> {
    use Chk::*;
    Some(match r_type {
        e::R_X86_64_NONE | e::R_X86_64_TLSDESC_CALL => (0, Dont, Dont),
        e::R_X86_64_64 | e::R_X86_64_PC64 | e::R_X86_64_GOTOFF64 | e::R_X86_64_GOT64
        | e::R_X86_64_GOTPC64 | e::R_X86_64_PLTOFF64 | e::R_X86_64_DTPOFF64 => (8, Dont, Dont),
        e::R_X86_64_PC32 | e::R_X86_64_PLT32 | e::R_X86_64_GOTPCREL | e::R_X86_64_GOTPC32
        | e::R_X86_64_32S | e::R_X86_64_GOT32 | e::R_X86_64_TLSGD | e::R_X86_64_TLSLD
        | e::R_X86_64_DTPOFF32 | e::R_X86_64_GOTTPOFF | e::R_X86_64_TPOFF32
        | e::R_X86_64_GOTPCRELX | e::R_X86_64_REX_GOTPCRELX | e::R_X86_64_CODE_4_GOTPCRELX
        | e::R_X86_64_CODE_5_GOTPCRELX | e::R_X86_64_CODE_6_GOTPCRELX
        | e::R_X86_64_CODE_4_GOTTPOFF | e::R_X86_64_CODE_5_GOTTPOFF
        | e::R_X86_64_CODE_6_GOTTPOFF => (4, Signed, Signed),
        e::R_X86_64_GOTPC32_TLSDESC | e::R_X86_64_CODE_4_GOTPC32_TLSDESC
        | e::R_X86_64_CODE_5_GOTPC32_TLSDESC | e::R_X86_64_CODE_6_GOTPC32_TLSDESC => {
            (4, Bitfield, Signed)
        }
        e::R_X86_64_32 => (4, Unsigned, Unsigned),
        e::R_X86_64_16 => (2, Bitfield, Bitfield),
        e::R_X86_64_PC16 => (2, Bitfield, Signed),
        e::R_X86_64_8 => (1, Bitfield, Bitfield),
        e::R_X86_64_PC8 => (1, Signed, Signed),
        _ => return None,
    })
}

fn x86_table_lemma(r_type: u32) {
    let v: u64 = kani::any();
    let Some(info) = crate::x86_64::relocation_from_raw(r_type) else {
        return;
    };
    let Some((bytes, ld, lld)) = x86_spec(r_type) else {
        // a type wild accepts that the oracle table does not list: undecided, not a violation
        kani::cover!(true, "x86-64 type without oracle row");
        assert!(false, "x86-64 relocation type accepted by wild has no oracle row (extend x86_spec)");
        return;
    };
    // the field width is the psABI's
    assert!(matches!(info.size, RelocationSize::ByteSize(k) if k == bytes), "field width differs from the psABI");
    assert!(info.alignment == 1 && info.bias == 0);
    let before: [u8; 8] = kani::any();
    let mut buf = before;
    let res = info.write_to_buffer(v, &mut buf[..]);
    let ok = res.is_ok();
    core::mem::forget(res);
    let sv = v as i64;
    let in_ld = accepts(ld, bytes, sv);
    let in_lld = accepts(lld, bytes, sv);
    if in_ld && in_lld {
        assert!(ok, "value accepted by both GNU ld and lld is rejected");
    }
    if !in_ld && !in_lld {
        assert!(!ok, "value rejected by both GNU ld and lld is accepted");
    }
    if ok && bytes > 0 && bytes < 8 {
        // never silently truncated: the field, read back signed or unsigned, gives the value
        let mut f = [0u8; 8];
        let mut i = 0;
        while i < bytes {
            f[i] = buf[i];
            i += 1;
        }
        let z = u64::from_le_bytes(f);
        let sh = 64 - 8 * bytes as u32;
        let s = ((z << sh) as i64) >> sh;
        assert!(z == v || s == sv, "value silently truncated");
    }
    if ok && bytes == 8 {
        assert!(u64::from_le_bytes(buf) == v);
    }
    if !ok {
        assert!(buf == before, "Err must leave the buffer untouched");
    }
}

#[kani::proof]
#[kani::unwind(9)]
#[kani::stub(alloc::fmt::format, stubs::verif_format_stub)]
#[kani::stub(std::backtrace::Backtrace::capture, stubs::verif_backtrace_stub)]
fn c12_x86_64_table_all_types_all_values() {
    let r_type: u32 = kani::any();
    x86_table_lemma(r_type);
}

// per-row harnesses (thorough tier: localise a failing row)
macro_rules! x86_rows {
    ($($name:ident => $c:ident),* $(,)?) => { ::paste::paste! { $(
        #[kani::proof] #[kani::unwind(9)]
        #[kani::stub(alloc::fmt::format, stubs::verif_format_stub)]
        #[kani::stub(std::backtrace::Backtrace::capture, stubs::verif_backtrace_stub)]
        fn [<c12_x86_row_ $name>]() { x86_table_lemma(e::$c) }
    )* } };
}
x86_rows! {
    r64 => R_X86_64_64, pc32 => R_X86_64_PC32, got32 => R_X86_64_GOT32, plt32 => R_X86_64_PLT32,
    gotpcrel => R_X86_64_GOTPCREL, r32 => R_X86_64_32, r32s => R_X86_64_32S, r16 => R_X86_64_16,
    pc16 => R_X86_64_PC16, r8 => R_X86_64_8, pc8 => R_X86_64_PC8, tlsgd => R_X86_64_TLSGD,
    dtpoff32 => R_X86_64_DTPOFF32, gottpoff => R_X86_64_GOTTPOFF, tpoff32 => R_X86_64_TPOFF32,
    gotpcrelx => R_X86_64_GOTPCRELX, rex_gotpcrelx => R_X86_64_REX_GOTPCRELX,
    tlsdesc => R_X86_64_GOTPC32_TLSDESC,
}

#[kani::proof]
fn c12_x86_64_types_known_to_the_oracle_are_supported_or_dynamic() {
    // every static relocation type in the oracle table is accepted by wild's table
    let r_type: u32 = kani::any();
    if x86_spec(r_type).is_some() {
        assert!(crate::x86_64::relocation_from_raw(r_type).is_some());
    }
}

// ---------------------------------------------------------------------------------------------
// AArch64 table lemma
// ---------------------------------------------------------------------------------------------

#[derive(Clone, Copy, PartialEq)]
enum Check {
    None,        // no overflow check (_NC rows, 64-bit data, low-12 page offsets)
    S(u32),      // -2^(n-1) <= X < 2^(n-1)
    U(u32),      // 0 <= X < 2^n
    SU(u32),     // -2^(n-1) <= X < 2^n   (ABS32/ABS16/PREL32/PREL16)
    Unknown,     // not transcribed: oracle-free obligations only
}

#[derive(Clone, Copy, PartialEq)]
enum Field {
    Bytes(usize),
    Insn(A, u32, u32), // instruction class, X[hi-1:lo]
}

fn a64_check_accepts(c: Check, v: i64) -> bool {
    match c {
        Check::None | Check::Unknown => true,
        Check::S(n) => -(1i64 << (n - 1)) <= v && v < (1i64 << (n - 1)),
        Check::U(n) => 0 <= v && v < (1i64 << n),
        Check::SU(n) => -(1i64 << (n - 1)) <= v && v < (1i64 << n),
    }
}

// aaelf64 section 5.7: (field, overflow check, required alignment of X)
fn a64_spec(r: u32) -> Option<(Field, Check, usize)> {
    use Check::*;
    use Field::*;
    Some(match r {
        e::R_AARCH64_NONE | e::R_AARCH64_TLSDESC_CALL => (Bytes(0), None, 1),
        e::R_AARCH64_ABS64 | e::R_AARCH64_PREL64 => (Bytes(8), None, 1),
        e::R_AARCH64_ABS32 | e::R_AARCH64_PREL32 => (Bytes(4), SU(32), 1),
        e::R_AARCH64_ABS16 | e::R_AARCH64_PREL16 => (Bytes(2), SU(16), 1),
        e::R_AARCH64_PLT32 | e::R_AARCH64_GOTPCREL32 => (Bytes(4), S(32), 1),
        e::R_AARCH64_GOTREL64 => (Bytes(8), None, 1),
        e::R_AARCH64_GOTREL32 => (Bytes(4), S(32), 1),
        // MOVZ/MOVK unsigned groups
        e::R_AARCH64_MOVW_UABS_G0 => (Insn(A::Movkz, 0, 16), U(16), 1),
        e::R_AARCH64_MOVW_UABS_G0_NC => (Insn(A::Movkz, 0, 16), None, 1),
        e::R_AARCH64_MOVW_UABS_G1 => (Insn(A::Movkz, 16, 32), U(32), 1),
        e::R_AARCH64_MOVW_UABS_G1_NC => (Insn(A::Movkz, 16, 32), None, 1),
        e::R_AARCH64_MOVW_UABS_G2 => (Insn(A::Movkz, 32, 48), U(48), 1),
        e::R_AARCH64_MOVW_UABS_G2_NC => (Insn(A::Movkz, 32, 48), None, 1),
        e::R_AARCH64_MOVW_UABS_G3 => (Insn(A::Movkz, 48, 64), None, 1),
        // MOVN/MOVZ signed groups
        e::R_AARCH64_MOVW_SABS_G0 | e::R_AARCH64_MOVW_PREL_G0 | e::R_AARCH64_TLSLE_MOVW_TPREL_G0 => {
            (Insn(A::Movnz, 0, 16), S(17), 1)
        }
        e::R_AARCH64_MOVW_SABS_G1 | e::R_AARCH64_MOVW_PREL_G1 | e::R_AARCH64_TLSLE_MOVW_TPREL_G1 => {
            (Insn(A::Movnz, 16, 32), S(33), 1)
        }
        e::R_AARCH64_MOVW_SABS_G2 | e::R_AARCH64_MOVW_PREL_G2 | e::R_AARCH64_TLSLE_MOVW_TPREL_G2 => {
            (Insn(A::Movnz, 32, 48), S(49), 1)
        }
        e::R_AARCH64_MOVW_PREL_G3 => (Insn(A::Movnz, 48, 64), None, 1),
        e::R_AARCH64_MOVW_PREL_G0_NC | e::R_AARCH64_TLSLE_MOVW_TPREL_G0_NC => {
            (Insn(A::Movkz, 0, 16), None, 1)
        }
        e::R_AARCH64_MOVW_PREL_G1_NC | e::R_AARCH64_TLSLE_MOVW_TPREL_G1_NC => {
            (Insn(A::Movkz, 16, 32), None, 1)
        }
        e::R_AARCH64_MOVW_PREL_G2_NC => (Insn(A::Movkz, 32, 48), None, 1),
        // GOT-relative MOVW, TLS GD/LD/IE MOVW, DTPREL MOVW: field transcribed, check not
        e::R_AARCH64_MOVW_GOTOFF_G0 | e::R_AARCH64_TLSLD_MOVW_DTPREL_G0 => {
            (Insn(A::Movnz, 0, 16), Unknown, 1)
        }
        e::R_AARCH64_MOVW_GOTOFF_G1
        | e::R_AARCH64_TLSGD_MOVW_G1
        | e::R_AARCH64_TLSLD_MOVW_G1
        | e::R_AARCH64_TLSLD_MOVW_DTPREL_G1
        | e::R_AARCH64_TLSIE_MOVW_GOTTPREL_G1
        | e::R_AARCH64_TLSDESC_OFF_G1 => (Insn(A::Movnz, 16, 32), Unknown, 1),
        e::R_AARCH64_MOVW_GOTOFF_G2 | e::R_AARCH64_TLSLD_MOVW_DTPREL_G2 => {
            (Insn(A::Movnz, 32, 48), Unknown, 1)
        }
        e::R_AARCH64_MOVW_GOTOFF_G3 => (Insn(A::Movnz, 48, 64), None, 1),
        e::R_AARCH64_MOVW_GOTOFF_G0_NC
        | e::R_AARCH64_TLSGD_MOVW_G0_NC
        | e::R_AARCH64_TLSLD_MOVW_G0_NC
        | e::R_AARCH64_TLSLD_MOVW_DTPREL_G0_NC
        | e::R_AARCH64_TLSIE_MOVW_GOTTPREL_G0_NC
        | e::R_AARCH64_TLSDESC_OFF_G0_NC => (Insn(A::Movkz, 0, 16), None, 1),
        e::R_AARCH64_MOVW_GOTOFF_G1_NC | e::R_AARCH64_TLSLD_MOVW_DTPREL_G1_NC => {
            (Insn(A::Movkz, 16, 32), None, 1)
        }
        e::R_AARCH64_MOVW_GOTOFF_G2_NC => (Insn(A::Movkz, 32, 48), None, 1),
        // LDR (literal) 19-bit, word scaled
        e::R_AARCH64_LD_PREL_LO19
        | e::R_AARCH64_GOT_LD_PREL19
        | e::R_AARCH64_TLSLD_LD_PREL19
        | e::R_AARCH64_TLSIE_LD_GOTTPREL_PREL19
        | e::R_AARCH64_TLSDESC_LD_PREL19 => (Insn(A::Ldr, 2, 21), S(21), 4),
        // ADR 21-bit
        e::R_AARCH64_ADR_PREL_LO21
        | e::R_AARCH64_TLSGD_ADR_PREL21
        | e::R_AARCH64_TLSLD_ADR_PREL21
        | e::R_AARCH64_TLSDESC_ADR_PREL21 => (Insn(A::Adr, 0, 21), S(21), 1),
        // ADRP page
        e::R_AARCH64_ADR_PREL_PG_HI21
        | e::R_AARCH64_ADR_GOT_PAGE
        | e::R_AARCH64_TLSGD_ADR_PAGE21
        | e::R_AARCH64_TLSLD_ADR_PAGE21
        | e::R_AARCH64_TLSIE_ADR_GOTTPREL_PAGE21
        | e::R_AARCH64_TLSDESC_ADR_PAGE21 => (Insn(A::Adr, 12, 33), S(33), 1),
        e::R_AARCH64_ADR_PREL_PG_HI21_NC => (Insn(A::Adr, 12, 33), None, 1),
        // ADD imm12
        e::R_AARCH64_ADD_ABS_LO12_NC
        | e::R_AARCH64_TLSGD_ADD_LO12_NC
        | e::R_AARCH64_TLSLD_ADD_LO12_NC
        | e::R_AARCH64_TLSLD_ADD_DTPREL_LO12_NC
        | e::R_AARCH64_TLSLE_ADD_TPREL_LO12_NC
        | e::R_AARCH64_TLSDESC_ADD_LO12 => (Insn(A::Add, 0, 12), None, 1),
        e::R_AARCH64_TLSLD_ADD_DTPREL_HI12 | e::R_AARCH64_TLSLE_ADD_TPREL_HI12 => {
            (Insn(A::Add, 12, 24), U(24), 1)
        }
        e::R_AARCH64_TLSLD_ADD_DTPREL_LO12 | e::R_AARCH64_TLSLE_ADD_TPREL_LO12 => {
            (Insn(A::Add, 0, 12), U(12), 1)
        }
        // LD/ST imm12, scaled by the access size
        e::R_AARCH64_LDST8_ABS_LO12_NC
        | e::R_AARCH64_TLSLD_LDST8_DTPREL_LO12_NC
        | e::R_AARCH64_TLSLE_LDST8_TPREL_LO12_NC => (Insn(A::LdSt, 0, 12), None, 1),
        e::R_AARCH64_LDST16_ABS_LO12_NC
        | e::R_AARCH64_TLSLD_LDST16_DTPREL_LO12_NC
        | e::R_AARCH64_TLSLE_LDST16_TPREL_LO12_NC => (Insn(A::LdSt, 1, 12), None, 2),
        e::R_AARCH64_LDST32_ABS_LO12_NC
        | e::R_AARCH64_TLSLD_LDST32_DTPREL_LO12_NC
        | e::R_AARCH64_TLSLE_LDST32_TPREL_LO12_NC => (Insn(A::LdSt, 2, 12), None, 4),
        e::R_AARCH64_LDST64_ABS_LO12_NC
        | e::R_AARCH64_TLSLD_LDST64_DTPREL_LO12_NC
        | e::R_AARCH64_TLSLE_LDST64_TPREL_LO12_NC
        | e::R_AARCH64_LD64_GOT_LO12_NC
        | e::R_AARCH64_TLSIE_LD64_GOTTPREL_LO12_NC
        | e::R_AARCH64_TLSDESC_LD64_LO12 => (Insn(A::LdSt, 3, 12), None, 8),
        e::R_AARCH64_LDST128_ABS_LO12_NC
        | e::R_AARCH64_TLSLD_LDST128_DTPREL_LO12_NC
        | e::R_AARCH64_TLSLE_LDST128_TPREL_LO12_NC => (Insn(A::LdSt, 4, 12), None, 16),
        e::R_AARCH64_TLSLD_LDST8_DTPREL_LO12 | e::R_AARCH64_TLSLE_LDST8_TPREL_LO12 => {
            (Insn(A::LdSt, 0, 12), U(12), 1)
        }
        e::R_AARCH64_TLSLD_LDST16_DTPREL_LO12 | e::R_AARCH64_TLSLE_LDST16_TPREL_LO12 => {
            (Insn(A::LdSt, 1, 12), U(12), 2)
        }
        e::R_AARCH64_TLSLD_LDST32_DTPREL_LO12 | e::R_AARCH64_TLSLE_LDST32_TPREL_LO12 => {
            (Insn(A::LdSt, 2, 12), U(12), 4)
        }
        e::R_AARCH64_TLSLD_LDST64_DTPREL_LO12 | e::R_AARCH64_TLSLE_LDST64_TPREL_LO12 => {
            (Insn(A::LdSt, 3, 12), U(12), 8)
        }
        e::R_AARCH64_TLSLD_LDST128_DTPREL_LO12 | e::R_AARCH64_TLSLE_LDST128_TPREL_LO12 => {
            (Insn(A::LdSt, 4, 12), U(12), 16)
        }
        e::R_AARCH64_LD64_GOTOFF_LO15 | e::R_AARCH64_LD64_GOTPAGE_LO15 => {
            (Insn(A::LdSt, 3, 15), U(15), 8)
        }
        // branches
        e::R_AARCH64_TSTBR14 => (Insn(A::TstBr, 2, 16), S(16), 4),
        e::R_AARCH64_CONDBR19 => (Insn(A::Bcond, 2, 21), S(21), 4),
        e::R_AARCH64_JUMP26 | e::R_AARCH64_CALL26 => (Insn(A::JumpCall, 2, 28), S(28), 4),
        _ => return Option::None,
    })
}

// ISA field of an instruction class: (mask, width, position-preserving decoder).
// LDR(literal)/B.cond imm19[23:5], ADR immlo/immhi, imm12[21:10], imm14[18:5], imm26[25:0], imm16[20:5]
fn a64_isa_class(k: A) -> u8 {
    match k {
        A::Adr => 0,
        A::Movkz | A::Movnz => 1,
        A::Ldr | A::Bcond => 2,
        A::LdrRegister | A::Add | A::LdSt => 3,
        A::TstBr => 4,
        A::JumpCall => 5,
        A::MachOLow12 => 6,
    }
}

fn a64_isa_width(k: A) -> u32 {
    match k {
        A::Adr => 21,
        A::Movkz | A::Movnz => 16,
        A::Ldr | A::Bcond => 19,
        A::LdrRegister | A::Add | A::LdSt => 12,
        A::TstBr => 14,
        A::JumpCall => 26,
        A::MachOLow12 => 0,
    }
}

fn a64_isa_mask(k: A) -> u32 {
    match k {
        A::Adr => 0x60ff_ffe0,
        A::Movkz => 0x001f_ffe0,
        A::Movnz => !0x0060_001f,
        A::Ldr | A::Bcond => 0x00ff_ffe0,
        A::LdrRegister | A::Add | A::LdSt => 0x003f_fc00,
        A::TstBr => 0x0007_ffe0,
        A::JumpCall => 0x03ff_ffff,
        A::MachOLow12 => 0,
    }
}

fn a64_isa_decode(k: A, w: u32) -> u64 {
    (match k {
        A::Adr => ((w >> 29) & 3) | (((w >> 5) & 0x7ffff) << 2),
        A::Movkz | A::Movnz => (w >> 5) & 0xffff,
        A::Ldr | A::Bcond => (w >> 5) & 0x7ffff,
        A::LdrRegister | A::Add | A::LdSt => (w >> 10) & 0xfff,
        A::TstBr => (w >> 5) & 0x3fff,
        A::JumpCall => w & 0x03ff_ffff,
        A::MachOLow12 => 0,
    }) as u64
}

fn a64_table_lemma(r_type: u32) {
    let v: u64 = kani::any();
    let Some(info) = crate::aarch64::relocation_type_from_raw(r_type) else {
        return;
    };
    let Some((field, check, align)) = a64_spec(r_type) else {
        assert!(false, "AArch64 relocation type accepted by wild has no oracle row (extend a64_spec)");
        return;
    };
    let w: u32 = kani::any();
    let tail: u32 = kani::any();
    let mut buf = [0u8; 8];
    buf[..4].copy_from_slice(&w.to_le_bytes());
    buf[4..].copy_from_slice(&tail.to_le_bytes());
    let before = buf;
    let res = info.write_to_buffer(v, &mut buf[..]);
    let ok = res.is_ok();
    core::mem::forget(res);
    let sv = v as i64;
    let aligned = (v as usize) % align == 0;
    // (1) accepted exactly when the psABI's check passes (both linkers implement that check)
    if check != Check::Unknown {
        if a64_check_accepts(check, sv) && aligned {
            assert!(ok, "value that fits the psABI field is rejected");
        }
        if !a64_check_accepts(check, sv) {
            assert!(!ok, "value that does not fit the psABI field is accepted (silent truncation)");
        }
    }
    if !ok {
        assert!(buf == before, "Err must leave the buffer untouched");
        return;
    }
    // (2) the bytes written are the psABI's field of X, and nothing else changes
    match field {
        Field::Bytes(k) => {
            assert!(matches!(info.size, RelocationSize::ByteSize(n) if n == k), "field width differs from the psABI");
            let le = v.to_le_bytes();
            let i: usize = kani::any();
            kani::assume(i < 8);
            if i < k {
                assert!(buf[i] == le[i]);
            } else {
                assert!(buf[i] == before[i]);
            }
        }
        Field::Insn(kind, lo, hi) => {
            assert!(
                matches!(info.size, RelocationSize::BitMasking(BitMask { instruction: crate::elf::RelocationInstruction::AArch64(k), .. })
                    if a64_isa_class(k) == a64_isa_class(kind)),
                "instruction class differs from the psABI's"
            );
            let m = a64_isa_mask(kind);
            let r = u32::from_le_bytes([buf[0], buf[1], buf[2], buf[3]]);
            assert!(u32::from_le_bytes([buf[4], buf[5], buf[6], buf[7]]) == tail, "bytes after the instruction changed");
            assert!(r & !m == w & !m, "bits outside the immediate field changed");
            let width = hi - lo;
            assert!(width <= a64_isa_width(kind));
            let want = (v >> lo) & ((1u64 << width) - 1);
            if matches!(kind, A::Movnz) {
                // MOVN/MOVZ chosen by sign; the register's 16-bit group equals X[hi-1:lo]
                let imm16 = a64_isa_decode(kind, r);
                let is_movn = r & (1 << 30) == 0;
                assert!(is_movn == (sv < 0));
                let group = if is_movn { !imm16 & 0xffff } else { imm16 };
                assert!(group == want, "MOVN/MOVZ group differs from X[hi:lo]");
            } else {
                assert!(a64_isa_decode(kind, r) == want, "field differs from X[hi:lo]");
            }
        }
    }
}

#[kani::proof]
#[kani::unwind(9)]
#[kani::stub(alloc::fmt::format, stubs::verif_format_stub)]
#[kani::stub(std::backtrace::Backtrace::capture, stubs::verif_backtrace_stub)]
fn c12_aarch64_table_all_types_all_values() {
    let r_type: u32 = kani::any();
    a64_table_lemma(r_type);
}

macro_rules! a64_rows {
    ($($name:ident => $c:ident),* $(,)?) => { ::paste::paste! { $(
        #[kani::proof] #[kani::unwind(9)]
        #[kani::stub(alloc::fmt::format, stubs::verif_format_stub)]
        #[kani::stub(std::backtrace::Backtrace::capture, stubs::verif_backtrace_stub)]
        fn [<c12_a64_row_ $name>]() { a64_table_lemma(e::$c) }
    )* } };
}
a64_rows! {
    abs32 => R_AARCH64_ABS32, abs16 => R_AARCH64_ABS16, prel32 => R_AARCH64_PREL32,
    plt32 => R_AARCH64_PLT32, gotrel64 => R_AARCH64_GOTREL64, gotrel32 => R_AARCH64_GOTREL32,
    uabs_g1 => R_AARCH64_MOVW_UABS_G1, sabs_g0 => R_AARCH64_MOVW_SABS_G0,
    prel_g0 => R_AARCH64_MOVW_PREL_G0, prel_g1 => R_AARCH64_MOVW_PREL_G1, prel_g2 => R_AARCH64_MOVW_PREL_G2,
    tprel_g0 => R_AARCH64_TLSLE_MOVW_TPREL_G0, tprel_g1 => R_AARCH64_TLSLE_MOVW_TPREL_G1,
    tprel_g2 => R_AARCH64_TLSLE_MOVW_TPREL_G2,
    ld_prel_lo19 => R_AARCH64_LD_PREL_LO19, got_ld_prel19 => R_AARCH64_GOT_LD_PREL19,
    tlsld_ld_prel19 => R_AARCH64_TLSLD_LD_PREL19, adr_prel_lo21 => R_AARCH64_ADR_PREL_LO21,
    adr_pg_hi21 => R_AARCH64_ADR_PREL_PG_HI21, add_lo12 => R_AARCH64_ADD_ABS_LO12_NC,
    ldst64_lo12 => R_AARCH64_LDST64_ABS_LO12_NC, ldst128_lo12 => R_AARCH64_LDST128_ABS_LO12_NC,
    tstbr14 => R_AARCH64_TSTBR14, condbr19 => R_AARCH64_CONDBR19, call26 => R_AARCH64_CALL26,
    ld64_gotoff_lo15 => R_AARCH64_LD64_GOTOFF_LO15, ld64_gotpage_lo15 => R_AARCH64_LD64_GOTPAGE_LO15,
    tlsgd_movw_g1 => R_AARCH64_TLSGD_MOVW_G1, tlsld_movw_g1 => R_AARCH64_TLSLD_MOVW_G1,
    tlsdesc_off_g1 => R_AARCH64_TLSDESC_OFF_G1, tprel_hi12 => R_AARCH64_TLSLE_ADD_TPREL_HI12,
    tprel_lo12 => R_AARCH64_TLSLE_ADD_TPREL_LO12, tlsie_ld64_lo12 => R_AARCH64_TLSIE_LD64_GOTTPREL_LO12_NC,
    tlsdesc_ld64_lo12 => R_AARCH64_TLSDESC_LD64_LO12,
}

// ---------------------------------------------------------------------------------------------
// vacuity canaries (must fail)
// ---------------------------------------------------------------------------------------------

#[kani::proof]
#[kani::unwind(9)]
#[kani::stub(alloc::fmt::format, stubs::verif_format_stub)]
#[kani::stub(std::backtrace::Backtrace::capture, stubs::verif_backtrace_stub)]
fn c12_canary_x86_table_reaches_ok_and_err() {
    let r_type: u32 = kani::any();
    let v: u64 = kani::any();
    if let Some(info) = crate::x86_64::relocation_from_raw(r_type) {
        let mut buf = [0u8; 8];
        let res = info.write_to_buffer(v, &mut buf[..]);
        let ok = res.is_ok();
        core::mem::forget(res);
        assert!(ok, "canary: must fail (Err reachable)");
    }
}

#[kani::proof]
#[kani::unwind(9)]
#[kani::stub(alloc::fmt::format, stubs::verif_format_stub)]
#[kani::stub(std::backtrace::Backtrace::capture, stubs::verif_backtrace_stub)]
fn c12_canary_a64_table_reaches_ok() {
    let r_type: u32 = kani::any();
    let v: u64 = kani::any();
    if let Some(info) = crate::aarch64::relocation_type_from_raw(r_type) {
        let mut buf = [0u8; 8];
        let res = info.write_to_buffer(v, &mut buf[..]);
        let ok = res.is_ok();
        core::mem::forget(res);
        assert!(!ok, "canary: must fail (Ok reachable)");
    }
}

// ---------------------------------------------------------------------------------------------
// RISC-V (RV64): the LUI / AUIPC class
// ---------------------------------------------------------------------------------------------
// R_RISCV_HI20, PCREL_HI20, GOT_HI20, TLS_GOT_HI20, TLS_GD_HI20, TPREL_HI20 place X in a U-type
// instruction (LUI / AUIPC) whose partner (ADDI / LD / JALR ..., relocated by the matching LO12
// relocation) adds a sign-extended 12-bit immediate; R_RISCV_CALL / CALL_PLT place X in an
// AUIPC + JALR pair.  On RV64 the U-type result is the 32-bit value imm20 << 12 SIGN-EXTENDED to 64
// bits (RISC-V unprivileged ISA, 2.4 / 5.2: "LUI places the 32-bit U-immediate into register rd ...
// the 32-bit result is sign-extended to 64 bits", likewise AUIPC).  So X is representable exactly
// when there are hi in [-2^19, 2^19) and lo in [-2^11, 2^11) with (hi << 12) + lo == X, i.e.
//     -2^31 - 2^11 <= X < 2^31 - 2^11,
// which is what GNU ld checks (bfd/elfnn-riscv.c: `ARCH_SIZE > 32 && !VALID_UTYPE_IMM
// (RISCV_CONST_HIGH_PART (relocation))` -> bfd_reloc_overflow for exactly these types) and lld
// (ELF/Arch/RISCV.cpp: checkInt(loc, SignExtend64(val + 0x800, bits) >> 12, 20, rel) on RV64).
fn rv_hi20_class(r_type: u32) -> bool {
    matches!(
        r_type,
        e::R_RISCV_HI20
            | e::R_RISCV_PCREL_HI20
            | e::R_RISCV_GOT_HI20
            | e::R_RISCV_TLS_GOT_HI20
            | e::R_RISCV_TLS_GD_HI20
            | e::R_RISCV_TPREL_HI20
            | e::R_RISCV_CALL
            | e::R_RISCV_CALL_PLT
    )
}

#[kani::proof]
#[kani::unwind(9)]
#[kani::stub(alloc::fmt::format, stubs::verif_format_stub)]
#[kani::stub(std::backtrace::Backtrace::capture, stubs::verif_backtrace_stub)]
fn c12_riscv64_lui_auipc_class_accepts_exactly_the_representable_values() {
    let r_type: u32 = kani::any();
    kani::assume(rv_hi20_class(r_type));
    let Some(info) = crate::riscv64::relocation_type_from_raw(r_type) else {
        assert!(false, "wild does not support a LUI/AUIPC-class RISC-V relocation");
        return;
    };
    let v: i64 = kani::any();
    let mut buf: [u8; 8] = kani::any();
    let res = info.write_to_buffer(v as u64, &mut buf[..]);
    let ok = res.is_ok();
    core::mem::forget(res);
    let representable = -(1i64 << 31) - (1i64 << 11) <= v && v < (1i64 << 31) - (1i64 << 11);
    if representable {
        assert!(ok, "a value the LUI/AUIPC + 12-bit pair can produce is rejected");
    } else {
        assert!(!ok, "a value the LUI/AUIPC + 12-bit pair cannot produce on RV64 is accepted (silent truncation)");
    }
}

#[kani::proof]
#[kani::unwind(9)]
#[kani::stub(alloc::fmt::format, stubs::verif_format_stub)]
#[kani::stub(std::backtrace::Backtrace::capture, stubs::verif_backtrace_stub)]
fn c12_canary_riscv_class_reaches_ok() {
    let Some(info) = crate::riscv64::relocation_type_from_raw(e::R_RISCV_CALL_PLT) else { return };
    let v: i64 = kani::any();
    let mut buf: [u8; 8] = kani::any();
    let res = info.write_to_buffer(v as u64, &mut buf[..]);
    let ok = res.is_ok();
    core::mem::forget(res);
    assert!(!ok, "canary: some value must be accepted");
}
