// C33: obligations over the extracted SymbolDb::{apply_wrapped_symbol_overrides, override_name,
// get_unversioned}.  References are bound by looking a NAME up in the name table; --wrap works by
// rewriting that table before resolution.  From the property statement, for a wrapped name S:
//   a lookup of S finds what was registered as __wrap_S (when one exists);
//   a lookup of __real_S finds what was registered as S BEFORE the call (the original S);
//   __wrap_S itself and every uninvolved name still find what they found before.
#[cfg(kani)]
mod wrap_proofs {
    use super::*;

    fn new_db(wrap: Vec<String>) -> SymbolDb<'static> {
        let args: &'static ArgsStandIn = Box::leak(Box::new(ArgsStandIn { wrap }));
        static HERD: HerdStandIn = HerdStandIn;
        SymbolDb { args, herd: &HERD, buckets: vec![SymbolBucket { name_to_id: HashMap::new() }, SymbolBucket { name_to_id: HashMap::new() }] }
    }

    fn lookup(db: &SymbolDb<'static>, name: &'static [u8]) -> Option<u32> {
        db.get_unversioned(&UnversionedSymbolName::prehashed(name)).map(|id| id.0)
    }

    fn maybe_register(db: &mut SymbolDb<'static>, name: &'static [u8], id: u32) -> Option<u32> {
        if kani::any() {
            db.override_name(UnversionedSymbolName::prehashed(name), SymbolId(id));
            Some(id)
        } else {
            None
        }
    }

    #[kani::proof]
    #[kani::unwind(16)]
    fn c33_wrap_redirects_one_name() {
        let mut db = new_db(vec![String::from("foo")]);
        let foo = maybe_register(&mut db, b"foo", 1);
        let wrap_foo = maybe_register(&mut db, b"__wrap_foo", 2);
        let real_foo = maybe_register(&mut db, b"__real_foo", 3);
        let other = maybe_register(&mut db, b"bar", 4);
        db.apply_wrapped_symbol_overrides();
        if wrap_foo.is_some() {
            assert!(lookup(&db, b"foo") == wrap_foo, "a reference to the wrapped symbol does not bind to __wrap_<symbol>");
        } else {
            // no wrapper registered: wild leaves the name alone (GNU ld reports __wrap_foo undefined)
            assert!(lookup(&db, b"foo") == foo);
        }
        if foo.is_some() {
            assert!(lookup(&db, b"__real_foo") == foo, "a reference to __real_<symbol> does not bind to the original symbol");
        } else {
            assert!(lookup(&db, b"__real_foo") == real_foo);
        }
        assert!(lookup(&db, b"__wrap_foo") == wrap_foo, "the wrapper's own name was redirected");
        assert!(lookup(&db, b"bar") == other, "a name that is not wrapped was redirected");
        core::mem::forget(db);
    }

    #[kani::proof]
    #[kani::unwind(16)]
    fn c33_wrap_redirects_two_names_independently() {
        let mut db = new_db(vec![String::from("foo"), String::from("bar")]);
        let foo = maybe_register(&mut db, b"foo", 1);
        let wrap_foo = maybe_register(&mut db, b"__wrap_foo", 2);
        let bar = maybe_register(&mut db, b"bar", 3);
        let wrap_bar = maybe_register(&mut db, b"__wrap_bar", 4);
        db.apply_wrapped_symbol_overrides();
        assert!(lookup(&db, b"foo") == if wrap_foo.is_some() { wrap_foo } else { foo });
        assert!(lookup(&db, b"bar") == if wrap_bar.is_some() { wrap_bar } else { bar });
        if foo.is_some() {
            assert!(lookup(&db, b"__real_foo") == foo, "__real_foo does not bind to the original foo");
        }
        if bar.is_some() {
            assert!(lookup(&db, b"__real_bar") == bar, "__real_bar does not bind to the original bar");
        }
        core::mem::forget(db);
    }

    #[kani::proof]
    #[kani::unwind(16)]
    fn c33_no_wrap_option_changes_nothing() {
        let mut db = new_db(Vec::new());
        let foo = maybe_register(&mut db, b"foo", 1);
        let wrap_foo = maybe_register(&mut db, b"__wrap_foo", 2);
        db.apply_wrapped_symbol_overrides();
        assert!(lookup(&db, b"foo") == foo && lookup(&db, b"__wrap_foo") == wrap_foo && lookup(&db, b"__real_foo").is_none());
        core::mem::forget(db);
    }

    #[kani::proof]
    #[kani::unwind(16)]
    fn c33_canary_wrap_reachable() {
        let mut db = new_db(vec![String::from("foo")]);
        let _foo = maybe_register(&mut db, b"foo", 1);
        let _wrap_foo = maybe_register(&mut db, b"__wrap_foo", 2);
        db.apply_wrapped_symbol_overrides();
        assert!(lookup(&db, b"foo") != Some(2), "canary: the redirection must be reachable");
        core::mem::forget(db);
    }
}
