// ---- Route S prelude for C33: stand-ins for what SymbolDb::apply_wrapped_symbol_overrides,
// override_name and get_unversioned touch.  ASSUMED (listed in the evidence):
//  * hashbrown's HashMap behaves as a key->value map: modelled as a fixed-capacity association list
//    with get / insert (insert returns the previous value);
//  * PreHashed<UnversionedSymbolName>: equality is equality of the name bytes and the hash is a
//    deterministic function of them (here: the byte sum; the real one is foldhash) - only
//    "equal names pick the same bucket" matters to the functions extracted;
//  * bumpalo_herd: alloc_slice_copy returns a copy that lives as long as the link.
#[derive(Clone, Copy, PartialEq, Eq, Debug)]
pub struct SymbolId(pub u32);

#[derive(Clone, Copy, PartialEq, Eq)]
pub struct UnversionedSymbolName<'data>(&'data [u8]);

#[derive(Clone, Copy, PartialEq, Eq)]
pub struct PreHashed<T> { value: T, hash: u64 }
impl<T> PreHashed<T> {
    pub fn hash(&self) -> u64 { self.hash }
}
impl<'data> UnversionedSymbolName<'data> {
    pub fn prehashed(bytes: &'data [u8]) -> PreHashed<UnversionedSymbolName<'data>> {
        let mut h: u64 = 0;
        let mut i = 0;
        while i < bytes.len() { h = h.wrapping_add(bytes[i] as u64); i += 1; }
        PreHashed { value: UnversionedSymbolName(bytes), hash: h }
    }
}

// fixed-capacity association list (a growing Vec of symbolic length exhausts CBMC's memory)
pub const MAP_CAP: usize = 6;
pub struct HashMap<K, V> { items: [Option<(K, V)>; MAP_CAP], len: usize }
impl<K: PartialEq + Copy, V: Copy> HashMap<K, V> {
    pub fn new() -> Self { HashMap { items: [None; MAP_CAP], len: 0 } }
    pub fn get(&self, key: &K) -> Option<&V> {
        let mut i = 0;
        while i < MAP_CAP {
            if i < self.len {
                if let Some((k, v)) = &self.items[i] {
                    if *k == *key { return Some(v); }
                }
            }
            i += 1;
        }
        None
    }
    pub fn insert(&mut self, key: K, value: V) -> Option<V> {
        let mut i = 0;
        while i < MAP_CAP {
            if i < self.len {
                if let Some((k, v)) = &mut self.items[i] {
                    if *k == key { return Some(core::mem::replace(v, value)); }
                }
            }
            i += 1;
        }
        assert!(self.len < MAP_CAP, "stand-in map capacity");
        self.items[self.len] = Some((key, value));
        self.len += 1;
        None
    }
}

pub struct SymbolBucket<'data> {
    pub name_to_id: HashMap<PreHashed<UnversionedSymbolName<'data>>, SymbolId>,
}

pub struct ArgsStandIn { pub wrap: Vec<String> }
impl ArgsStandIn {
    pub fn symbol_names_to_wrap(&self) -> &[String] { &self.wrap }
}

pub struct HerdStandIn;
pub struct MemberStandIn;
impl HerdStandIn { pub fn get(&self) -> MemberStandIn { MemberStandIn } }
impl MemberStandIn {
    pub fn alloc_slice_copy<'a>(&self, src: &[u8]) -> &'a mut [u8] { Box::leak(src.to_vec().into_boxed_slice()) }
}

pub struct SymbolDb<'data> {
    pub args: &'data ArgsStandIn,
    pub herd: &'data HerdStandIn,
    pub buckets: Vec<SymbolBucket<'data>>,
}

// X6 stand-in for `format!("<prefix>{name}")`: the prefix followed by the name.
pub fn concat_str(prefix: &str, name: &String) -> String {
    let mut out = String::with_capacity(prefix.len() + name.len());
    out.push_str(prefix);
    out.push_str(name);
    out
}
