// C31 (exclude-libs / export gate): obligations over the extracted statements.
// `export_gate(this, resources)` is the statement run cut out of ObjectLayoutState::activate:
// Some(export_all_dynamic) when load_non_hidden_symbols would be called with that flag, None
// when it would not be called (no symbol of this object is offered for export).
#[cfg(kani)]
mod gate_proofs {
    use super::*;

    fn any_kind() -> OutputKind {
        let m = if kani::any() { RelocationModel::Relocatable } else { RelocationModel::NonRelocatable };
        match kani::any::<u8>() % 4 {
            0 => OutputKind::StaticExecutable(m),
            1 => OutputKind::DynamicExecutable(m),
            2 => OutputKind::SharedObject,
            _ => OutputKind::Relocatable,
        }
    }

    struct Case { file: InputFile, is_member: bool, res: ResourcesStandIn }
    fn any_case() -> Case {
        Case {
            file: InputFile { modifiers: ModifiersStandIn { archive_semantics: kani::any() }, original_filename: NameStandIn },
            is_member: kani::any(),
            res: ResourcesStandIn { symbol_db: SymbolDbStandIn {
                output_kind: any_kind(),
                args: ArgsStandIn { lib_not_excluded: kani::any(), export_dynamic_flag: kani::any() },
                export_list: if kani::any() { Some(()) } else { None },
            } },
        }
    }

    static ENTRY: EntryMetaStandIn = EntryMetaStandIn;

    // (a) the property's sentence: symbols of a library excluded by --exclude-libs are never
    // offered for export - whatever the output kind, --export-dynamic and dynamic lists.  An
    // input belongs to a library when it is an archive member (regular or thin archive) or was
    // given archive semantics (--start-lib).
    #[kani::proof]
    fn c31_gate_excluded_library_is_never_exported() {
        let c = any_case();
        let this = ObjectStandIn { input: InputRef { file: &c.file, entry: if c.is_member { Some(&ENTRY) } else { None } } };
        let from_library = c.is_member || c.file.modifiers.archive_semantics;
        let gate = export_gate(&this, &c.res);
        if from_library && !c.res.symbol_db.args.lib_not_excluded {
            assert!(gate.is_none(), "an object of a library excluded by --exclude-libs is offered for export");
        }
    }

    // (b) everything else is exported as GNU ld does: all non-hidden definitions in a shared
    // object, or anywhere a .dynsym exists with --export-dynamic; only listed symbols
    // (export_all_dynamic = false) when just a dynamic list was given; nothing otherwise.
    #[kani::proof]
    fn c31_gate_exports_exactly_what_must_be_dynamic() {
        let c = any_case();
        let this = ObjectStandIn { input: InputRef { file: &c.file, entry: if c.is_member { Some(&ENTRY) } else { None } } };
        let from_library = c.is_member || c.file.modifiers.archive_semantics;
        kani::assume(!(from_library && !c.res.symbol_db.args.lib_not_excluded));
        let kind = c.res.symbol_db.output_kind;
        let has_dynsym = matches!(kind, OutputKind::DynamicExecutable(_) | OutputKind::SharedObject
            | OutputKind::StaticExecutable(RelocationModel::Relocatable));
        let all = matches!(kind, OutputKind::SharedObject) || has_dynsym && c.res.symbol_db.args.export_dynamic_flag;
        let listed_only = !all && has_dynsym && c.res.symbol_db.export_list.is_some();
        let want = if all { Some(true) } else if listed_only { Some(false) } else { None };
        assert!(export_gate(&this, &c.res) == want, "the export gate differs from GNU ld's rule");
    }

    #[kani::proof]
    fn c31_gate_canary_reachable() {
        let c = any_case();
        let this = ObjectStandIn { input: InputRef { file: &c.file, entry: if c.is_member { Some(&ENTRY) } else { None } } };
        assert!(export_gate(&this, &c.res) != Some(false), "canary: the listed-only path must be reachable");
    }
}
