// ---- Route S prelude for C31's export gate: stand-ins for what the extracted statements of
// ObjectLayoutState::activate and the extracted InputRef predicates touch.  Nothing here decides
// anything: the stand-ins only hold symbolic answers.
// ASSUMED (listed in the evidence):
//  * Args::should_export_dynamic(lib) == !ExcludeLibs::should_exclude(lib) (real one-liner in
//    args/elf.rs; the set lookup behind it runs over a std HashSet and is not executed) - here a
//    symbolic boolean;
//  * Args::should_export_all_dynamic_symbols() is the --export-dynamic flag - a symbolic boolean;
//  * symbol_db.export_list is Some exactly when --dynamic-list / --export-dynamic-symbol(-list)
//    was given - symbolic.
pub struct ModifiersStandIn { pub archive_semantics: bool }
pub struct NameStandIn;
impl NameStandIn {
    pub fn as_os_str(&self) -> &NameStandIn { self }
    pub fn as_encoded_bytes(&self) -> &'static [u8] { b"lib.a" }
}
pub struct InputFile { pub modifiers: ModifiersStandIn, pub original_filename: NameStandIn }
pub struct EntryMetaStandIn;
#[derive(Clone, Copy)]
pub struct InputRef<'data> {
    pub file: &'data InputFile,
    pub entry: Option<&'data EntryMetaStandIn>,
}
pub struct ObjectStandIn<'data> { pub input: InputRef<'data> }
pub struct ArgsStandIn { pub lib_not_excluded: bool, pub export_dynamic_flag: bool }
impl ArgsStandIn {
    pub fn should_export_dynamic(&self, _lib_name: &[u8]) -> bool { self.lib_not_excluded }
    pub fn should_export_all_dynamic_symbols(&self) -> bool { self.export_dynamic_flag }
}
pub struct SymbolDbStandIn { pub output_kind: OutputKind, pub args: ArgsStandIn, pub export_list: Option<()> }
pub struct ResourcesStandIn { pub symbol_db: SymbolDbStandIn }
