// C31: symbol tables describe the final resolution -- the dynamic-export predicate.
//
// Child module of libwild::layout.  Functions under contract (real code):
//   elf::convert_elf_visibility, layout::can_export_symbol::<Elf>
// Contract, from the property statement ("the .dynsym exports ... default-visibility definitions
// ...; hidden or INTERNAL symbols and symbols demoted by --exclude-libs [or a version script] are
// never exported") and the gABI (STV_INTERNAL: "generic tools can safely treat internal symbols
// as hidden"; STV_PROTECTED symbols are visible to other components):
//   convert_elf_visibility(v): Hidden for STV_HIDDEN and STV_INTERNAL, Protected for
//       STV_PROTECTED, Default for STV_DEFAULT, for every st_other visibility value 0..=3;
//   can_export_symbol(sym, id, resources, export_all) with no --export-list:
//       true  <==>  sym is defined (st_shndx != SHN_UNDEF), not STB_LOCAL, its visibility is
//                   DEFAULT or PROTECTED, `id` is the canonical definition of its name, and the
//                   symbol was not demoted to local (DOWNGRADE_TO_LOCAL);
//       in particular a HIDDEN or INTERNAL symbol is never exported.
// GraphResources / SymbolDb are nondeterministic storage with resources.symbol_db,
// resources.per_symbol_flags, symbol_db.symbol_definitions and symbol_db.export_list initialised.
use super::*;
use crate::symbol_db::Visibility;
use crate::elf::Elf;
use crate::value_flags::PerSymbolFlags;
use object::LittleEndian;

#[kani::proof]
fn c31_visibility_internal_and_hidden_are_hidden() {
    let v: u8 = kani::any();
    kani::assume(v <= 3);
    let got = crate::elf::convert_elf_visibility(v);
    match v {
        object::elf::STV_DEFAULT => assert!(got == Visibility::Default),
        object::elf::STV_PROTECTED => assert!(got == Visibility::Protected),
        // STV_INTERNAL (1) and STV_HIDDEN (2)
        _ => assert!(got == Visibility::Hidden, "an STV_INTERNAL / STV_HIDDEN symbol is not treated as hidden"),
    }
    assert!(object::elf::STV_DEFAULT == 0 && object::elf::STV_INTERNAL == 1 && object::elf::STV_HIDDEN == 2 && object::elf::STV_PROTECTED == 3);
}

#[kani::proof]
#[kani::unwind(4)]
fn c31_export_predicate_matches_the_elf_rules() {
    // ---- the symbol as it appears in the object file
    let mut sym: crate::elf::SymtabEntry = unsafe { core::mem::zeroed() };
    sym.st_info = kani::any();
    sym.st_other = kani::any();
    sym.st_shndx.set(LittleEndian, kani::any());
    // ---- resolution state: symbol 0 is the symbol, symbol 1 a possible other definition
    let canonical: bool = kani::any();
    let defs = vec![if canonical { SymbolId::from_usize(0) } else { SymbolId::from_usize(1) }, SymbolId::from_usize(1)];
    let db = crate::symbol_db::__verif_symbol_db_partial::partial_symbol_db_for_export(defs);
    let flags = ValueFlags::from_bits_retain(kani::any());
    let mut table = PerSymbolFlags { flags: vec![flags.raw(), ValueFlags::empty().raw()] };
    let atomic = table.borrow_atomic();
    let mut res_storage = core::mem::MaybeUninit::<GraphResources<'static, '_, Elf>>::uninit();
    unsafe {
        core::ptr::addr_of_mut!((*res_storage.as_mut_ptr()).symbol_db).write(db);
        core::ptr::addr_of_mut!((*res_storage.as_mut_ptr()).per_symbol_flags).write(core::mem::transmute(&atomic));
    }
    // export_all_dynamic only gates the --export-list lookup (`!export_all_dynamic && let
    // Some(export_list) = ..`); that lookup runs over the object files' string tables and
    // hashbrown and is out of CBMC's reach (12 GB and no result, measured), so the predicate is
    // checked as `export_dynamic` calls it and as `load_non_hidden_symbols` calls it without an
    // export list: with the flag set.
    let got = can_export_symbol::<Elf>(&sym, SymbolId::from_usize(0), unsafe { &*res_storage.as_ptr() }, true);

    let binding = sym.st_info >> 4;
    let visibility = sym.st_other & 3;
    let defined = sym.st_shndx.get(LittleEndian) != object::elf::SHN_UNDEF;
    let want = defined
        && binding != object::elf::STB_LOCAL
        && (visibility == object::elf::STV_DEFAULT || visibility == object::elf::STV_PROTECTED)
        && canonical
        && !flags.is_downgraded_to_local();
    assert!(got == want, "a symbol is exported to .dynsym against the ELF visibility/binding rules (or a visible definition is withheld)");
    if visibility == object::elf::STV_HIDDEN || visibility == object::elf::STV_INTERNAL {
        assert!(!got, "a hidden or internal symbol is exported");
    }
}

#[kani::proof]
#[kani::unwind(4)]
fn c31_canary_export_reachable() {
    let mut sym: crate::elf::SymtabEntry = unsafe { core::mem::zeroed() };
    sym.st_info = kani::any();
    sym.st_other = 0;
    sym.st_shndx.set(LittleEndian, 5);
    let db = crate::symbol_db::__verif_symbol_db_partial::partial_symbol_db_for_export(vec![SymbolId::from_usize(0)]);
    let mut table = PerSymbolFlags { flags: vec![ValueFlags::empty().raw()] };
    let atomic = table.borrow_atomic();
    let mut res_storage = core::mem::MaybeUninit::<GraphResources<'static, '_, Elf>>::uninit();
    unsafe {
        core::ptr::addr_of_mut!((*res_storage.as_mut_ptr()).symbol_db).write(db);
        core::ptr::addr_of_mut!((*res_storage.as_mut_ptr()).per_symbol_flags).write(core::mem::transmute(&atomic));
    }
    let got = can_export_symbol::<Elf>(&sym, SymbolId::from_usize(0), unsafe { &*res_storage.as_ptr() }, true);
    assert!(!got, "canary: an exportable symbol must be reachable");
}
