// C01: relocated values are correct at run time -- relocation-table conformance kernel.
//
// Child module of linker_utils (appended to src/lib.rs).  For every relocation type number the
// *operation* wild selects (RelocationKind + PageMask + bias) must be the operation the psABI
// prints for that type.  The oracle below is a transcription of the psABI "Operation"/"Calculation"
// columns in the psABI's own notation (S, A, P, L, G, GOT, Page(), GDAT(), GTLSIDX(), GLDM(),
// GTPREL(), GTLSDESC(), DTPREL(), TPREL()); a second small function maps each notation to the
// RelocationKind whose documented meaning (linker-utils/src/elf.rs doc comments) is that formula.
//   x86-64 : System V ABI AMD64 1.0, table 4.9 (+ APX CODE_4/5/6 rows from the x86-64 psABI 2024 draft)
//   AArch64: aaelf64 2024Q3, tables in section 5.7.3 - 5.7.12
// The field (bit slice / width / overflow check) of each row is C12's lemma; together they say:
// "the bytes written for relocation type T decode to the designated bits of the psABI's formula".
use crate::elf::DynamicRelocationKind as D;
use crate::elf::PageMask;
use crate::elf::RelocationKind as K;
use object::elf as e;

/// psABI operations, one variant per distinct formula.
#[derive(Clone, Copy, PartialEq)]
enum Op {
    NoneOp,           // none
    SA,               // S + A
    SAlow,            // S + A, low bits only, no overflow check, never a dynamic relocation (_NC LO12 rows)
    SAP,              // S + A - P
    LAP,              // L + A - P     (PLT entry if one exists, else S)
    PageSAPageP,      // Page(S+A) - Page(P)
    SAGOT,            // S + A - GOT
    LAGOT,            // L + A - GOT
    GA,               // G + A                       (offset of the GOT entry in the GOT)
    GGOTAP,           // G + GOT + A - P             (address of the GOT entry, pc-relative)
    GOTAP,            // GOT + A - P
    GDAT,             // G(GDAT(S+A))                (address of the GOT entry)
    GDATGOT,          // G(GDAT(S+A)) - GOT
    GDATP,            // G(GDAT(S+A)) - P
    PageGDATPageP,    // Page(G(GDAT(S+A))) - Page(P)
    GDATPageGOT,      // G(GDAT(S+A)) - Page(GOT)
    TlsGdP,           // G(GTLSIDX(S,A)) - P     /  x86: TLSGD
    PageTlsGdPageP,   // Page(G(GTLSIDX(S,A))) - Page(P)
    TlsGdAbs,         // G(GTLSIDX(S,A))
    TlsGdGOT,         // G(GTLSIDX(S,A)) - GOT
    TlsLdP,           // G(GLDM(S)) - P          /  x86: TLSLD
    PageTlsLdPageP,   // Page(G(GLDM(S))) - Page(P)
    TlsLdAbs,         // G(GLDM(S))
    TlsLdGOT,         // G(GLDM(S)) - GOT
    DtpRel,           // DTPREL(S+A)
    GotTpRelP,        // G(GTPREL(S+A)) - P      /  x86: GOTTPOFF
    PageGotTpRelPageP, // Page(G(GTPREL(S+A))) - Page(P)
    GotTpRelAbs,      // G(GTPREL(S+A))
    GotTpRelGOT,      // G(GTPREL(S+A)) - GOT
    TpRel,            // TPREL(S+A)
    TlsDescP,         // G(GTLSDESC(S+A)) - P    /  x86: GOTPC32_TLSDESC
    PageTlsDescPageP, // Page(G(GTLSDESC(S+A))) - Page(P)
    TlsDescAbs,       // G(GTLSDESC(S+A))
    TlsDescGOT,       // G(GTLSDESC(S+A)) - GOT
    TlsDescCall,      // marker on the call instruction
}

/// 0 = no page mask; 1 = Page() of symbol+addend and of P; 2 = Page() of the GOT entry and of P;
/// 3 = Page() of the GOT base only.
fn op_class(op: Op) -> (K, u8) {
    match op {
        Op::NoneOp => (K::None, 0),
        Op::SA => (K::Absolute, 0),
        Op::SAlow => (K::AbsoluteLowPart, 0),
        Op::SAP | Op::GOTAP => (K::Relative, 0),
        Op::LAP => (K::PltRelative, 0),
        Op::PageSAPageP => (K::Relative, 1),
        Op::SAGOT => (K::SymRelGotBase, 0),
        Op::LAGOT => (K::PltRelGotBase, 0),
        Op::GA | Op::GDATGOT => (K::GotRelGotBase, 0),
        Op::GGOTAP | Op::GDATP => (K::GotRelative, 0),
        Op::GDAT => (K::Got, 0),
        Op::PageGDATPageP => (K::GotRelative, 2),
        Op::GDATPageGOT => (K::GotRelGotBase, 3),
        Op::TlsGdP => (K::TlsGd, 0),
        Op::PageTlsGdPageP => (K::TlsGd, 2),
        Op::TlsGdAbs => (K::TlsGdGot, 0),
        Op::TlsGdGOT => (K::TlsGdGotBase, 0),
        Op::TlsLdP => (K::TlsLd, 0),
        Op::PageTlsLdPageP => (K::TlsLd, 2),
        Op::TlsLdAbs => (K::TlsLdGot, 0),
        Op::TlsLdGOT => (K::TlsLdGotBase, 0),
        Op::DtpRel => (K::DtpOff, 0),
        Op::GotTpRelP => (K::GotTpOff, 0),
        Op::PageGotTpRelPageP => (K::GotTpOff, 2),
        Op::GotTpRelAbs => (K::GotTpOffGot, 0),
        Op::GotTpRelGOT => (K::GotTpOffGotBase, 0),
        Op::TpRel => (K::TpOff, 0),
        Op::TlsDescP => (K::TlsDesc, 0),
        Op::PageTlsDescPageP => (K::TlsDesc, 2),
        Op::TlsDescAbs => (K::TlsDescGot, 0),
        Op::TlsDescGOT => (K::TlsDescGotBase, 0),
        Op::TlsDescCall => (K::TlsDescCall, 0),
    }
}

fn mask_class(m: Option<PageMask>) -> (u8, u64) {
    match m {
        None => (0, 0),
        Some(PageMask::SymbolPlusAddendAndPosition(v)) => (1, v),
        Some(PageMask::GotEntryAndPosition(v)) => (2, v),
        Some(PageMask::GotBase(v)) => (3, v),
        Some(PageMask::Position(v)) => (4, v),
    }
}

// ---------------------------------------------------------------------------------------------
// x86-64 psABI table 4.9
// ---------------------------------------------------------------------------------------------
fn x86_op(r: u32) -> Option<Op> {
    Some(match r {
        0 => Op::NoneOp,                 // R_X86_64_NONE
        1 => Op::SA,                     // R_X86_64_64        S + A
        2 => Op::SAP,                    // R_X86_64_PC32      S + A - P
        3 => Op::GA,                     // R_X86_64_GOT32     G + A
        4 => Op::LAP,                    // R_X86_64_PLT32     L + A - P
        9 => Op::GGOTAP,                 // R_X86_64_GOTPCREL  G + GOT + A - P
        10 => Op::SA,                    // R_X86_64_32        S + A
        11 => Op::SA,                    // R_X86_64_32S       S + A
        12 => Op::SA,                    // R_X86_64_16        S + A
        13 => Op::SAP,                   // R_X86_64_PC16      S + A - P
        14 => Op::SA,                    // R_X86_64_8         S + A
        15 => Op::SAP,                   // R_X86_64_PC8       S + A - P
        17 => Op::DtpRel,                // R_X86_64_DTPOFF64
        19 => Op::TlsGdP,                // R_X86_64_TLSGD
        20 => Op::TlsLdP,                // R_X86_64_TLSLD
        21 => Op::DtpRel,                // R_X86_64_DTPOFF32
        22 => Op::GotTpRelP,             // R_X86_64_GOTTPOFF
        23 => Op::TpRel,                 // R_X86_64_TPOFF32
        24 => Op::SAP,                   // R_X86_64_PC64      S + A - P
        25 => Op::SAGOT,                 // R_X86_64_GOTOFF64  S + A - GOT
        26 => Op::GOTAP,                 // R_X86_64_GOTPC32   GOT + A - P
        27 => Op::GA,                    // R_X86_64_GOT64     G + A
        29 => Op::GOTAP,                 // R_X86_64_GOTPC64   GOT + A - P
        31 => Op::LAGOT,                 // R_X86_64_PLTOFF64  L - GOT + A
        34 => Op::TlsDescP,              // R_X86_64_GOTPC32_TLSDESC
        35 => Op::TlsDescCall,           // R_X86_64_TLSDESC_CALL
        41 | 42 => Op::GGOTAP,           // R_X86_64_GOTPCRELX / REX_GOTPCRELX   G + GOT + A - P
        43 | 46 | 49 => Op::GGOTAP,      // R_X86_64_CODE_4/5/6_GOTPCRELX
        44 | 47 | 50 => Op::GotTpRelP,   // R_X86_64_CODE_4/5/6_GOTTPOFF
        45 | 48 | 51 => Op::TlsDescP,    // R_X86_64_CODE_4/5/6_GOTPC32_TLSDESC
        _ => return None,
    })
}

fn x86_ops_lemma(r_type: u32) {
    let Some(info) = crate::x86_64::relocation_from_raw(r_type) else {
        return;
    };
    let Some(op) = x86_op(r_type) else {
        assert!(false, "x86-64 relocation type accepted by wild has no psABI row in the oracle (extend x86_op)");
        return;
    };
    let (kind, page) = op_class(op);
    assert!(info.kind == kind, "operation differs from the psABI formula for this x86-64 relocation type");
    assert!(mask_class(info.mask).0 == page && page == 0, "x86-64 relocations never use Page()");
    assert!(info.bias == 0, "x86-64 relocations have no bias");
    assert!(info.alignment == 1, "x86-64 fields have no alignment requirement");
    assert!(!info.thunkable, "x86-64 has no range-extension thunks");
}

#[kani::proof]
fn c01_x86_64_operation_matches_psabi_for_every_type() {
    let r_type: u32 = kani::any();
    x86_ops_lemma(r_type);
}

// the object crate's names denote the psABI's numbers (so wild's table, written with names, and
// the oracle, written with numbers, talk about the same rows)
#[kani::proof]
fn c01_x86_64_constant_numbers_are_the_psabi_numbers() {
    assert!(e::R_X86_64_NONE == 0 && e::R_X86_64_64 == 1 && e::R_X86_64_PC32 == 2 && e::R_X86_64_GOT32 == 3);
    assert!(e::R_X86_64_PLT32 == 4 && e::R_X86_64_COPY == 5 && e::R_X86_64_GLOB_DAT == 6 && e::R_X86_64_JUMP_SLOT == 7);
    assert!(e::R_X86_64_RELATIVE == 8 && e::R_X86_64_GOTPCREL == 9 && e::R_X86_64_32 == 10 && e::R_X86_64_32S == 11);
    assert!(e::R_X86_64_16 == 12 && e::R_X86_64_PC16 == 13 && e::R_X86_64_8 == 14 && e::R_X86_64_PC8 == 15);
    assert!(e::R_X86_64_DTPMOD64 == 16 && e::R_X86_64_DTPOFF64 == 17 && e::R_X86_64_TPOFF64 == 18 && e::R_X86_64_TLSGD == 19);
    assert!(e::R_X86_64_TLSLD == 20 && e::R_X86_64_DTPOFF32 == 21 && e::R_X86_64_GOTTPOFF == 22 && e::R_X86_64_TPOFF32 == 23);
    assert!(e::R_X86_64_PC64 == 24 && e::R_X86_64_GOTOFF64 == 25 && e::R_X86_64_GOTPC32 == 26 && e::R_X86_64_GOT64 == 27);
    assert!(e::R_X86_64_GOTPC64 == 29 && e::R_X86_64_PLTOFF64 == 31 && e::R_X86_64_GOTPC32_TLSDESC == 34);
    assert!(e::R_X86_64_TLSDESC_CALL == 35 && e::R_X86_64_TLSDESC == 36 && e::R_X86_64_IRELATIVE == 37);
    assert!(e::R_X86_64_GOTPCRELX == 41 && e::R_X86_64_REX_GOTPCRELX == 42);
    assert!(e::R_X86_64_CODE_4_GOTPCRELX == 43 && e::R_X86_64_CODE_4_GOTTPOFF == 44 && e::R_X86_64_CODE_4_GOTPC32_TLSDESC == 45);
    assert!(e::R_X86_64_CODE_5_GOTPCRELX == 46 && e::R_X86_64_CODE_5_GOTTPOFF == 47 && e::R_X86_64_CODE_5_GOTPC32_TLSDESC == 48);
    assert!(e::R_X86_64_CODE_6_GOTPCRELX == 49 && e::R_X86_64_CODE_6_GOTTPOFF == 50 && e::R_X86_64_CODE_6_GOTPC32_TLSDESC == 51);
}

// ---------------------------------------------------------------------------------------------
// aaelf64 5.7
// ---------------------------------------------------------------------------------------------
fn a64_op(r: u32) -> Option<Op> {
    Some(match r {
        0 | 256 => Op::NoneOp,                       // R_AARCH64_NONE (0 and the withdrawn 256)
        257 | 258 | 259 => Op::SA,                   // ABS64/32/16                 S + A
        260 | 261 | 262 => Op::SAP,                  // PREL64/32/16                S + A - P
        263..=272 => Op::SA,                         // MOVW_UABS_G0..G3, MOVW_SABS_G0..G2   S + A
        273 => Op::SAP,                              // LD_PREL_LO19                S + A - P
        274 => Op::SAP,                              // ADR_PREL_LO21               S + A - P
        275 | 276 => Op::PageSAPageP,                // ADR_PREL_PG_HI21[_NC]       Page(S+A) - Page(P)
        277 | 278 => Op::SAlow,                      // ADD_ABS_LO12_NC, LDST8_ABS_LO12_NC    S + A
        279 | 280 => Op::SAP,                        // TSTBR14, CONDBR19           S + A - P
        282 | 283 => Op::LAP,                        // JUMP26, CALL26              S + A - P via PLT
        284 | 285 | 286 | 299 => Op::SAlow,          // LDST16/32/64/128_ABS_LO12_NC          S + A
        287..=293 => Op::SAP,                        // MOVW_PREL_G0..G3            S + A - P
        300..=306 => Op::GDATGOT,                    // MOVW_GOTOFF_G0..G3          G(GDAT(S+A)) - GOT
        307 | 308 => Op::SAGOT,                      // GOTREL64/32                 S + A - GOT
        309 => Op::GDATP,                            // GOT_LD_PREL19               G(GDAT(S+A)) - P
        310 => Op::GDATGOT,                          // LD64_GOTOFF_LO15            G(GDAT(S+A)) - GOT
        311 => Op::PageGDATPageP,                    // ADR_GOT_PAGE                Page(G(GDAT(S+A))) - Page(P)
        312 => Op::GDAT,                             // LD64_GOT_LO12_NC            G(GDAT(S+A))
        313 => Op::GDATPageGOT,                      // LD64_GOTPAGE_LO15           G(GDAT(S+A)) - Page(GOT)
        314 => Op::LAP,                              // PLT32                       S + A - P via PLT
        315 => Op::GDATP,                            // GOTPCREL32                  G(GDAT(S)) + A - P
        512 => Op::TlsGdP,                           // TLSGD_ADR_PREL21            G(GTLSIDX(S,A)) - P
        513 => Op::PageTlsGdPageP,                   // TLSGD_ADR_PAGE21            Page(G(GTLSIDX)) - Page(P)
        514 => Op::TlsGdAbs,                         // TLSGD_ADD_LO12_NC           G(GTLSIDX(S,A))
        515 | 516 => Op::TlsGdGOT,                   // TLSGD_MOVW_G1, _G0_NC       G(GTLSIDX(S,A)) - GOT
        517 => Op::TlsLdP,                           // TLSLD_ADR_PREL21            G(GLDM(S)) - P
        518 => Op::PageTlsLdPageP,                   // TLSLD_ADR_PAGE21
        519 => Op::TlsLdAbs,                         // TLSLD_ADD_LO12_NC           G(GLDM(S))
        520 | 521 => Op::TlsLdGOT,                   // TLSLD_MOVW_G1, _G0_NC       G(GLDM(S)) - GOT
        522 => Op::TlsLdP,                           // TLSLD_LD_PREL19             G(GLDM(S)) - P
        523..=538 => Op::DtpRel,                     // TLSLD_MOVW_DTPREL_*, ADD_DTPREL_*, LDST{8,16,32,64}_DTPREL_*   DTPREL(S+A)
        539 | 540 => Op::GotTpRelGOT,                // TLSIE_MOVW_GOTTPREL_G1, _G0_NC        G(GTPREL(S+A)) - GOT
        541 => Op::PageGotTpRelPageP,                // TLSIE_ADR_GOTTPREL_PAGE21
        542 => Op::GotTpRelAbs,                      // TLSIE_LD64_GOTTPREL_LO12_NC G(GTPREL(S+A))
        543 => Op::GotTpRelP,                        // TLSIE_LD_GOTTPREL_PREL19    G(GTPREL(S+A)) - P
        544..=559 => Op::TpRel,                      // TLSLE_MOVW_TPREL_*, ADD_TPREL_*, LDST{8..64}_TPREL_*   TPREL(S+A)
        560 => Op::TlsDescP,                         // TLSDESC_LD_PREL19           G(GTLSDESC(S+A)) - P
        561 => Op::TlsDescP,                         // TLSDESC_ADR_PREL21
        562 => Op::PageTlsDescPageP,                 // TLSDESC_ADR_PAGE21
        563 | 564 => Op::TlsDescAbs,                 // TLSDESC_LD64_LO12, TLSDESC_ADD_LO12   G(GTLSDESC(S+A))
        565 | 566 => Op::TlsDescGOT,                 // TLSDESC_OFF_G1, _G0_NC      G(GTLSDESC(S+A)) - GOT
        569 => Op::TlsDescCall,                      // TLSDESC_CALL
        570 | 571 => Op::TpRel,                      // TLSLE_LDST128_TPREL_LO12[_NC]
        572 | 573 => Op::DtpRel,                     // TLSLD_LDST128_DTPREL_LO12[_NC]
        _ => return None,
    })
}

fn a64_ops_lemma(r_type: u32) {
    let Some(info) = crate::aarch64::relocation_type_from_raw(r_type) else {
        return;
    };
    let Some(op) = a64_op(r_type) else {
        assert!(false, "AArch64 relocation type accepted by wild has no aaelf64 row in the oracle (extend a64_op)");
        return;
    };
    let (kind, page) = op_class(op);
    assert!(info.kind == kind, "operation differs from the aaelf64 formula for this relocation type");
    let (mc, mv) = mask_class(info.mask);
    assert!(mc == page, "Page() applied to different operands than aaelf64's formula has");
    if page != 0 {
        assert!(mv == 0xfff, "Page(x) is x & ~0xfff (4 KiB pages)");
    }
    assert!(info.bias == 0, "AArch64 relocations have no bias");
    // range-extension veneers are defined for the two branch-immediate relocations only (aaelf64 5.7.7 note)
    assert!(info.thunkable == (r_type == 282 || r_type == 283), "thunkable must be exactly JUMP26/CALL26");
}

#[kani::proof]
fn c01_aarch64_operation_matches_aaelf64_for_every_type() {
    let r_type: u32 = kani::any();
    a64_ops_lemma(r_type);
}

#[kani::proof]
fn c01_aarch64_constant_numbers_are_the_aaelf64_numbers() {
    assert!(e::R_AARCH64_NONE == 0 && e::R_AARCH64_ABS64 == 257 && e::R_AARCH64_ABS32 == 258 && e::R_AARCH64_ABS16 == 259);
    assert!(e::R_AARCH64_PREL64 == 260 && e::R_AARCH64_PREL32 == 261 && e::R_AARCH64_PREL16 == 262);
    assert!(e::R_AARCH64_MOVW_UABS_G0 == 263 && e::R_AARCH64_MOVW_UABS_G3 == 269 && e::R_AARCH64_MOVW_SABS_G0 == 270 && e::R_AARCH64_MOVW_SABS_G2 == 272);
    assert!(e::R_AARCH64_LD_PREL_LO19 == 273);
    assert!(e::R_AARCH64_ADR_PREL_LO21 == 274 && e::R_AARCH64_ADR_PREL_PG_HI21 == 275 && e::R_AARCH64_ADR_PREL_PG_HI21_NC == 276);
    assert!(e::R_AARCH64_ADD_ABS_LO12_NC == 277 && e::R_AARCH64_LDST8_ABS_LO12_NC == 278 && e::R_AARCH64_TSTBR14 == 279 && e::R_AARCH64_CONDBR19 == 280);
    assert!(e::R_AARCH64_JUMP26 == 282 && e::R_AARCH64_CALL26 == 283);
    assert!(e::R_AARCH64_LDST16_ABS_LO12_NC == 284 && e::R_AARCH64_LDST32_ABS_LO12_NC == 285 && e::R_AARCH64_LDST64_ABS_LO12_NC == 286 && e::R_AARCH64_LDST128_ABS_LO12_NC == 299);
    assert!(e::R_AARCH64_MOVW_PREL_G0 == 287 && e::R_AARCH64_MOVW_PREL_G3 == 293);
    assert!(e::R_AARCH64_MOVW_GOTOFF_G0 == 300 && e::R_AARCH64_MOVW_GOTOFF_G3 == 306);
    assert!(e::R_AARCH64_GOTREL64 == 307 && e::R_AARCH64_GOTREL32 == 308 && e::R_AARCH64_GOT_LD_PREL19 == 309 && e::R_AARCH64_LD64_GOTOFF_LO15 == 310);
    assert!(e::R_AARCH64_ADR_GOT_PAGE == 311 && e::R_AARCH64_LD64_GOT_LO12_NC == 312 && e::R_AARCH64_LD64_GOTPAGE_LO15 == 313);
    assert!(e::R_AARCH64_PLT32 == 314 && e::R_AARCH64_GOTPCREL32 == 315);
    assert!(e::R_AARCH64_TLSGD_ADR_PREL21 == 512 && e::R_AARCH64_TLSGD_ADR_PAGE21 == 513 && e::R_AARCH64_TLSGD_ADD_LO12_NC == 514);
    assert!(e::R_AARCH64_TLSGD_MOVW_G1 == 515 && e::R_AARCH64_TLSGD_MOVW_G0_NC == 516);
    assert!(e::R_AARCH64_TLSLD_ADR_PREL21 == 517 && e::R_AARCH64_TLSLD_ADR_PAGE21 == 518 && e::R_AARCH64_TLSLD_ADD_LO12_NC == 519);
    assert!(e::R_AARCH64_TLSLD_MOVW_G1 == 520 && e::R_AARCH64_TLSLD_MOVW_G0_NC == 521 && e::R_AARCH64_TLSLD_LD_PREL19 == 522);
    assert!(e::R_AARCH64_TLSLD_MOVW_DTPREL_G2 == 523 && e::R_AARCH64_TLSLD_LDST64_DTPREL_LO12_NC == 538);
    assert!(e::R_AARCH64_TLSIE_MOVW_GOTTPREL_G1 == 539 && e::R_AARCH64_TLSIE_MOVW_GOTTPREL_G0_NC == 540);
    assert!(e::R_AARCH64_TLSIE_ADR_GOTTPREL_PAGE21 == 541 && e::R_AARCH64_TLSIE_LD64_GOTTPREL_LO12_NC == 542 && e::R_AARCH64_TLSIE_LD_GOTTPREL_PREL19 == 543);
    assert!(e::R_AARCH64_TLSLE_MOVW_TPREL_G2 == 544 && e::R_AARCH64_TLSLE_LDST64_TPREL_LO12_NC == 559);
    assert!(e::R_AARCH64_TLSDESC_LD_PREL19 == 560 && e::R_AARCH64_TLSDESC_ADR_PREL21 == 561 && e::R_AARCH64_TLSDESC_ADR_PAGE21 == 562);
    assert!(e::R_AARCH64_TLSDESC_LD64_LO12 == 563 && e::R_AARCH64_TLSDESC_ADD_LO12 == 564 && e::R_AARCH64_TLSDESC_OFF_G1 == 565 && e::R_AARCH64_TLSDESC_OFF_G0_NC == 566);
    assert!(e::R_AARCH64_TLSDESC_CALL == 569);
    assert!(e::R_AARCH64_TLSLE_LDST128_TPREL_LO12 == 570 && e::R_AARCH64_TLSLE_LDST128_TPREL_LO12_NC == 571);
    assert!(e::R_AARCH64_TLSLD_LDST128_DTPREL_LO12 == 572 && e::R_AARCH64_TLSLD_LDST128_DTPREL_LO12_NC == 573);
}

// ---------------------------------------------------------------------------------------------
// Dynamic relocation numbers (what the loader is asked to do): psABI numbers, and the two
// directions of each table are inverse.
// ---------------------------------------------------------------------------------------------
fn any_dyn() -> D {
    let k: u8 = kani::any();
    match k % 10 {
        0 => D::Copy,
        1 => D::Irelative,
        2 => D::DtpMod,
        3 => D::DtpOff,
        4 => D::TlsDesc,
        5 => D::TpOff,
        6 => D::Relative,
        7 => D::Absolute,
        8 => D::GotEntry,
        _ => D::JumpSlot,
    }
}

#[kani::proof]
fn c01_dynamic_relocation_numbers_are_the_psabi_numbers() {
    let k = any_dyn();
    // (x86-64 psABI table 4.9, aaelf64 5.7.12, RISC-V psABI, LoongArch psABI)
    let (x86, a64, rv, la): (u32, u32, u32, u32) = match k {
        D::Copy => (5, 1024, 4, 4),
        D::GotEntry => (6, 1025, 2, 2),          // GLOB_DAT; RISC-V and LoongArch have none: a 64-bit absolute
        D::JumpSlot => (7, 1026, 5, 5),
        D::Relative => (8, 1027, 3, 3),
        D::DtpMod => (16, 1028, 7, 7),
        D::DtpOff => (17, 1029, 9, 9),
        D::TpOff => (18, 1030, 11, 11),
        D::TlsDesc => (36, 1031, 12, 14),
        D::Irelative => (37, 1032, 58, 12),
        D::Absolute => (1, 257, 2, 2),
    };
    assert!(k.x86_64_r_type() == x86, "x86-64 dynamic relocation number differs from the psABI");
    assert!(k.aarch64_r_type() == a64, "AArch64 dynamic relocation number differs from aaelf64");
    assert!(k.riscv64_r_type() == rv, "RISC-V dynamic relocation number differs from the psABI");
    assert!(k.loongarch64_r_type() == la, "LoongArch dynamic relocation number differs from the psABI");
    // decoding is the inverse wherever the number is unambiguous
    assert!(D::from_x86_64_r_type(x86) == Some(k));
    assert!(D::from_aarch64_r_type(a64) == Some(k));
    if !matches!(k, D::GotEntry) {
        assert!(D::from_riscv64_r_type(rv) == Some(k));
        assert!(D::from_loongarch64_r_type(la) == Some(k));
    }
}

// vacuity canary: the lemmas really look at rows (must fail)
#[kani::proof]
fn c01_canary_rows_reachable() {
    let r_type: u32 = kani::any();
    if let Some(info) = crate::aarch64::relocation_type_from_raw(r_type) {
        assert!(info.kind != K::GotRelative, "canary");
    }
}
