// ---- Route S prelude for C24: what the extracted pieces of save_dir.rs need ----
use std::io::Write;
use std::path::Path;
pub type Result<T = ()> = std::io::Result<T>;

// X6 stand-in for `to_output_relative_path(path).as_os_str().as_encoded_bytes()`: the bytes of the
// path as given (the removal of "/" components is not part of the quoting obligation).
pub fn relative_path_bytes(path: &Path) -> &[u8] {
    path.as_os_str().as_encoded_bytes()
}
