// C24 (save directory): the run-with script must hand every saved argument back to wild as ONE
// word with its original bytes.  Oracle: POSIX sh token recognition (XCU 2.2 quoting, 2.3 token
// recognition) restricted to what the emitted text may use - backslash escapes and single quotes.
// Any other shell-special byte left unquoted makes the text something other than one plain word
// (a second word, an expansion, a command separator, a redirection ...) and fails the obligation.
#[cfg(kani)]
mod quote_proofs {
    use super::*;

    // every version of the code writes at most 3 bytes per argument byte (`'\n'`), + `$D/`
    const MAXOUT: usize = 20;

    /// A writer into a fixed buffer (no allocation).
    struct Sink { buf: [u8; MAXOUT], len: usize }
    impl Write for Sink {
        fn write(&mut self, data: &[u8]) -> std::io::Result<usize> {
            let mut i = 0;
            while i < data.len() {
                assert!(self.len < MAXOUT, "harness sink capacity");
                self.buf[self.len] = data[i];
                self.len += 1;
                i += 1;
            }
            Ok(data.len())
        }
        fn flush(&mut self) -> std::io::Result<()> { Ok(()) }
    }

    fn is_sh_special(b: u8, at_word_start: bool) -> bool {
        matches!(b, b' ' | b'\t' | b'\n' | b'"' | b'$' | b'`' | b';' | b'&' | b'|' | b'<' | b'>'
            | b'(' | b')' | b'*' | b'?' | b'[' | b'{' | b'}' | b'!')
            || (at_word_start && (b == b'~' || b == b'#'))
    }

    /// Reads `text` as the shell would read an argument position of a simple command.  Returns
    /// the single word it denotes, or None if it is not exactly one literal word.
    fn sh_read_one_word(text: &[u8]) -> Option<([u8; MAXOUT], usize)> {
        let mut out = [0u8; MAXOUT];
        let mut n = 0;
        let mut i = 0;
        let mut started = false;
        while i < text.len() {
            let b = text[i];
            if b == b'\\' {
                if i + 1 >= text.len() {
                    return None; // the script continues: this would swallow what follows
                }
                let c = text[i + 1];
                if c != b'\n' {
                    out[n] = c;
                    n += 1;
                    started = true;
                }
                // backslash-newline is a line continuation: both bytes vanish
                i += 2;
                continue;
            }
            if b == b'\'' {
                let mut j = i + 1;
                while j < text.len() && text[j] != b'\'' {
                    out[n] = text[j];
                    n += 1;
                    j += 1;
                }
                if j >= text.len() {
                    return None; // unterminated quote
                }
                started = true;
                i = j + 1;
                continue;
            }
            if is_sh_special(b, !started) {
                return None;
            }
            out[n] = b;
            n += 1;
            started = true;
            i += 1;
        }
        if !started {
            return None; // no word at all
        }
        Some((out, n))
    }

    fn check_plain<const N: usize>() {
        let bytes: [u8; N] = kani::any();
        let mut k = 0;
        while k < N {
            // argument strings are Rust Strings; the obligation is stated for ASCII (bytes >= 0x80
            // are passed through unchanged by every version of the code and are literal to sh)
            kani::assume(bytes[k] != 0 && bytes[k] < 0x80);
            k += 1;
        }
        let arg = unsafe { core::str::from_utf8_unchecked(&bytes[..]) }; // ASCII by assumption
        let mut sink = Sink { buf: [0; MAXOUT], len: 0 };
        let r = emit_arg(&mut sink, arg, Path::new("unused"), false, false);
        assert!(r.is_ok());
        let got = sh_read_one_word(&sink.buf[..sink.len]);
        match got {
            None => assert!(false, "the saved argument is not read back by sh as one literal word"),
            Some((w, n)) => {
                assert!(n == N, "the word sh reads back has a different length");
                let i: usize = kani::any();
                kani::assume(i < N);
                assert!(w[i] == bytes[i], "the word sh reads back differs from the argument");
            }
        }
    }

    fn check_copied<const N: usize>() {
        let bytes: [u8; N] = kani::any();
        let mut k = 0;
        while k < N {
            kani::assume(bytes[k] != 0 && bytes[k] < 0x80);
            k += 1;
        }
        let s = unsafe { core::str::from_utf8_unchecked(&bytes[..]) }; // ASCII by assumption
        let path = Path::new(s);
        let mut sink = Sink { buf: [0; MAXOUT], len: 0 };
        let r = emit_arg(&mut sink, "unused", path, false, true);
        assert!(r.is_ok());
        // the emitted text is `$D/` + the path; `$D` is the script's own variable
        assert!(sink.len >= 3 && sink.buf[0] == b'$' && sink.buf[1] == b'D' && sink.buf[2] == b'/');
        let got = sh_read_one_word(&sink.buf[3..sink.len]);
        match got {
            None => assert!(false, "the saved file name is not read back by sh as part of one literal word"),
            Some((w, n)) => {
                assert!(n == N);
                let i: usize = kani::any();
                kani::assume(i < N);
                assert!(w[i] == bytes[i], "the file name sh reads back differs");
            }
        }
    }

    // response-file mode: the text is consumed by wild, not by a shell: written unchanged
    #[kani::proof]
    #[kani::unwind(13)]
    fn c24_at_file_args_are_written_unchanged() {
        let bytes: [u8; 3] = kani::any();
        kani::assume(bytes[0] != 0 && bytes[0] < 0x80 && bytes[1] != 0 && bytes[1] < 0x80 && bytes[2] != 0 && bytes[2] < 0x80);
        let arg = unsafe { core::str::from_utf8_unchecked(&bytes[..]) }; // ASCII by assumption
        let mut sink = Sink { buf: [0; MAXOUT], len: 0 };
        let r = emit_arg(&mut sink, arg, Path::new("unused"), true, false);
        assert!(r.is_ok());
        assert!(sink.len == 3 && sink.buf[0] == bytes[0] && sink.buf[1] == bytes[1] && sink.buf[2] == bytes[2]);
    }

    // unwind: the longest loop is the 10-byte safe-set search / the 3N+3 bytes of emitted text
    macro_rules! c24_len {
        ($plain:ident, $copied:ident, $n:expr, $unwind:expr) => {
            #[kani::proof]
            #[kani::unwind($unwind)]
            fn $plain() { check_plain::<$n>(); }
            #[kani::proof]
            #[kani::unwind($unwind)]
            fn $copied() { check_copied::<$n>(); }
        };
    }
    c24_len!(c24_plain_args_of_1_byte_survive_the_shell, c24_copied_file_names_of_1_byte_survive_the_shell, 1, 13);
    c24_len!(c24_plain_args_of_2_bytes_survive_the_shell, c24_copied_file_names_of_2_bytes_survive_the_shell, 2, 13);
    c24_len!(c24_plain_args_of_3_bytes_survive_the_shell, c24_copied_file_names_of_3_bytes_survive_the_shell, 3, 14);
    c24_len!(c24_plain_args_of_5_bytes_survive_the_shell, c24_copied_file_names_of_5_bytes_survive_the_shell, 5, 20);

    #[kani::proof]
    #[kani::unwind(13)]
    fn c24_canary_escaping_reachable() {
        let bytes: [u8; 2] = kani::any();
        kani::assume(bytes[0] != 0 && bytes[0] < 0x80 && bytes[1] != 0 && bytes[1] < 0x80);
        let arg = unsafe { core::str::from_utf8_unchecked(&bytes[..]) }; // ASCII by assumption
        let mut sink = Sink { buf: [0; MAXOUT], len: 0 };
        let _ = emit_arg(&mut sink, arg, Path::new("unused"), false, false);
        assert!(sink.len == 2, "canary: some argument must need escaping");
    }
}
