// C13: instruction immediate fields are encoded exactly and locally.
//
// Child module of linker_utils (appended to src/lib.rs).  Every harness is loop-free over a fully
// symbolic instruction word `w`, a symbolic value `x` and a symbolic `negative` flag (the 4/8-step
// byte loops of or_from_slice/and_from_slice are unrolled with unwinding assertions on), so each
// is a proof for all inputs, not a bounded check.
//
// Oracles (M_I field masks, ISA decoders) are transcribed from the ISA manuals, NOT obtained from
// wild's bit_mask()/read_value():
//   AArch64  : Arm ARM DDI0487 C6.2 (ADR/ADRP, MOVK/MOVZ/MOVN, LDR literal, LDR/STR imm, ADD imm,
//              TBZ/TBNZ, B.cond, B/BL)
//   RISC-V   : unprivileged ISA ch. 2.3 (U/I/S/B/J immediates), ch. 16 (CB, CJ, CI/C.LUI)
//   LoongArch: reference manual vol. 1, table of instruction formats (1RI20, 2RI12, 2RI16, 1RI21, I26)
use crate::elf::AArch64Instruction as A;
use crate::elf::LoongArch64Instruction as L;
use crate::elf::RelocationInstruction;
use crate::elf::RiscVInstruction as R;

fn le32(b: &[u8]) -> u32 {
    u32::from_le_bytes([b[0], b[1], b[2], b[3]])
}
fn le16(b: &[u8]) -> u16 {
    u16::from_le_bytes([b[0], b[1]])
}
fn le64(b: &[u8]) -> u64 {
    u64::from_le_bytes([b[0], b[1], b[2], b[3], b[4], b[5], b[6], b[7]])
}

// ------------------------------------------------------------------------------------------
// AArch64
// ------------------------------------------------------------------------------------------

// (field mask, width, ISA decoder returning the raw unsigned field)
fn a64_spec(kind: A) -> (u32, u32) {
    match kind {
        A::Adr => (0x60ff_ffe0, 21),         // immlo[30:29] immhi[23:5]
        A::Movkz => (0x001f_ffe0, 16),       // imm16[20:5]
        A::Movnz => (!0x0060_001f, 16),      // everything but hw[22:21] and Rd[4:0] (opcode is rewritten)
        A::Ldr => (0x00ff_ffe0, 19),         // imm19[23:5]
        A::LdrRegister => (0x003f_fc00, 12), // imm12[21:10]
        A::Add => (0x003f_fc00, 12),
        A::LdSt => (0x003f_fc00, 12),
        A::TstBr => (0x0007_ffe0, 14),       // imm14[18:5]
        A::Bcond => (0x00ff_ffe0, 19),       // imm19[23:5]
        A::JumpCall => (0x03ff_ffff, 26),    // imm26[25:0]
        A::MachOLow12 => (0, 0),
    }
}

fn a64_decode(kind: A, w: u32) -> u64 {
    (match kind {
        A::Adr => ((w >> 29) & 3) | (((w >> 5) & 0x7ffff) << 2),
        A::Movkz | A::Movnz => (w >> 5) & 0xffff,
        A::Ldr | A::Bcond => (w >> 5) & 0x7ffff,
        A::LdrRegister | A::Add | A::LdSt => (w >> 10) & 0xfff,
        A::TstBr => (w >> 5) & 0x3fff,
        A::JumpCall => w & 0x03ff_ffff,
        A::MachOLow12 => 0,
    }) as u64
}

fn a64_frame_exact(kind: A) {
    let (m, width) = a64_spec(kind);
    let w: u32 = kani::any();
    let x: u64 = kani::any();
    let negative: bool = kani::any();
    kani::assume(x < (1u64 << width));
    // 8-byte destination: the 4 bytes after the instruction must not be touched
    let tail: u32 = kani::any();
    let mut dest = [0u8; 8];
    dest[..4].copy_from_slice(&w.to_le_bytes());
    dest[4..].copy_from_slice(&tail.to_le_bytes());
    kind.write_to_value(x, negative, &mut dest[..]);
    let r = le32(&dest);
    assert!(r & !m == w & !m, "frame: bits outside the immediate field changed");
    assert!(le32(&dest[4..]) == tail, "frame: bytes beyond the instruction changed");
    if matches!(kind, A::Movnz) {
        // ARM ARM C6.2.253/254: MOVN = sf 00 100101 hw imm16 Rd, MOVZ = sf 10 100101 hw imm16 Rd
        let expect = if negative {
            0x9280_0000 | (((!x & 0xffff) as u32) << 5)
        } else {
            0xd280_0000 | (((x & 0xffff) as u32) << 5)
        };
        assert!(r & m == expect, "MOVN/MOVZ opcode+imm16 not as ARM ARM encodes it");
    } else {
        assert!(a64_decode(kind, r) == x, "ISA decode of the written word differs from the value");
    }
}

fn a64_independent(kind: A) {
    let (m, width) = a64_spec(kind);
    let w1: u32 = kani::any();
    let w2: u32 = kani::any();
    kani::assume(w1 & !m == w2 & !m);
    let x: u64 = kani::any();
    let negative: bool = kani::any();
    kani::assume(x < (1u64 << width));
    let mut d1 = w1.to_le_bytes();
    let mut d2 = w2.to_le_bytes();
    kind.write_to_value(x, negative, &mut d1[..]);
    kind.write_to_value(x, negative, &mut d2[..]);
    assert!(d1 == d2, "result depends on the previous content of the immediate field");
}

fn a64_roundtrip(kind: A) {
    let (_m, width) = a64_spec(kind);
    let w: u32 = kani::any();
    let x: u64 = kani::any();
    let negative: bool = kani::any();
    kani::assume(x < (1u64 << width));
    let mut d = w.to_le_bytes();
    // wild's own convention: callers zero the field first or rely on the encoder clearing it
    kind.write_to_value(x, negative, &mut d[..]);
    let (v, neg) = kind.read_value(&d[..]);
    assert!(v & ((1u64 << width) - 1) == x, "read_value(write_to_value(x)) loses the value");
    if matches!(kind, A::Movnz) {
        assert!(neg == negative);
    }
}

macro_rules! a64_harnesses {
    ($($name:ident => $kind:expr),* $(,)?) => { ::paste::paste! { $(
        #[kani::proof] #[kani::unwind(9)]
        fn [<c13_a64_ $name _frame_exact>]() { a64_frame_exact($kind) }
        #[kani::proof] #[kani::unwind(9)]
        fn [<c13_a64_ $name _independent>]() { a64_independent($kind) }
        #[kani::proof] #[kani::unwind(9)]
        fn [<c13_a64_ $name _roundtrip>]() { a64_roundtrip($kind) }
    )* } };
}

a64_harnesses! {
    adr => A::Adr, movkz => A::Movkz, movnz => A::Movnz, ldr => A::Ldr, ldrreg => A::LdrRegister,
    add => A::Add, ldst => A::LdSt, tstbr => A::TstBr, bcond => A::Bcond, jumpcall => A::JumpCall,
}

// ------------------------------------------------------------------------------------------
// RISC-V (no precondition on x: the encoders select the bits they need)
// ------------------------------------------------------------------------------------------

#[derive(Clone, Copy)]
struct RvSpec {
    mask: u32,   // field mask within the (16 or 32 bit) instruction
    bytes: usize, // 2 or 4
}

fn rv_spec(kind: R) -> RvSpec {
    match kind {
        R::UType => RvSpec { mask: 0xffff_f000, bytes: 4 }, // imm[31:12]
        R::IType => RvSpec { mask: 0xfff0_0000, bytes: 4 }, // imm[11:0] at 31:20
        R::SType => RvSpec { mask: 0xfe00_0f80, bytes: 4 }, // imm[11:5] 31:25, imm[4:0] 11:7
        R::BType => RvSpec { mask: 0xfe00_0f80, bytes: 4 }, // imm[12|10:5] 31:25, imm[4:1|11] 11:7
        R::JType => RvSpec { mask: 0xffff_f000, bytes: 4 }, // imm[20|10:1|11|19:12] 31:12
        R::CbType => RvSpec { mask: 0x1c7c, bytes: 2 },     // off[8|4:3] 12:10, off[7:6|2:1|5] 6:2
        R::CjType => RvSpec { mask: 0x1ffc, bytes: 2 },     // off[11|4|9:8|10|6|7|3:1|5] 12:2
        R::CluiType => RvSpec { mask: 0x107c, bytes: 2 },   // nzimm[17] 12, nzimm[16:12] 6:2
        R::UiType => RvSpec { mask: 0, bytes: 8 },
    }
}

// ISA decoders: the immediate the hardware computes from the word (before sign extension,
// truncated to the field's bit positions)
fn rv_decode(kind: R, w: u32) -> u64 {
    (match kind {
        R::UType => w & 0xffff_f000,
        R::IType => w >> 20,
        R::SType => ((w >> 25) << 5) | ((w >> 7) & 0x1f),
        R::BType => {
            (((w >> 31) & 1) << 12) | (((w >> 7) & 1) << 11) | (((w >> 25) & 0x3f) << 5)
                | (((w >> 8) & 0xf) << 1)
        }
        R::JType => {
            (((w >> 31) & 1) << 20) | (((w >> 12) & 0xff) << 12) | (((w >> 20) & 1) << 11)
                | (((w >> 21) & 0x3ff) << 1)
        }
        R::CbType => {
            (((w >> 12) & 1) << 8) | (((w >> 10) & 3) << 3) | (((w >> 5) & 3) << 6)
                | (((w >> 3) & 3) << 1) | (((w >> 2) & 1) << 5)
        }
        R::CjType => {
            (((w >> 12) & 1) << 11) | (((w >> 11) & 1) << 4) | (((w >> 9) & 3) << 8)
                | (((w >> 8) & 1) << 10) | (((w >> 7) & 1) << 6) | (((w >> 6) & 1) << 7)
                | (((w >> 3) & 7) << 1) | (((w >> 2) & 1) << 5)
        }
        R::CluiType => ((((w >> 12) & 1) << 5) | ((w >> 2) & 0x1f)) << 12,
        R::UiType => 0,
    }) as u64
}

// what the psABI says the field must hold for relocation value x
fn rv_expected(kind: R, x: u64) -> u64 {
    match kind {
        R::UType => x.wrapping_add(0x800) & 0xffff_f000, // %hi with the +0x800 carry
        R::IType | R::SType => x & 0xfff,
        R::BType => x & 0x1ffe,
        R::JType => x & 0x1f_fffe,
        R::CbType => x & 0x1fe,
        R::CjType => x & 0xffe,
        R::CluiType => x.wrapping_add(0x800) & 0x3_f000,
        R::UiType => 0,
    }
}

fn rv_frame_exact(kind: R) {
    let s = rv_spec(kind);
    let w: u32 = kani::any();
    let tail: u32 = kani::any();
    let x: u64 = kani::any();
    let mut dest = [0u8; 8];
    dest[..4].copy_from_slice(&w.to_le_bytes());
    dest[4..].copy_from_slice(&tail.to_le_bytes());
    kind.write_to_value(x, kani::any(), &mut dest[..4]);
    let r = le32(&dest);
    if s.bytes == 2 {
        assert!(r >> 16 == w >> 16, "frame: bytes beyond the 16-bit instruction changed");
        assert!(r & 0xffff & !s.mask == w & 0xffff & !s.mask, "frame");
        assert!(rv_decode(kind, r & 0xffff) == rv_expected(kind, x), "ISA decode differs");
    } else {
        assert!(r & !s.mask == w & !s.mask, "frame: bits outside the immediate field changed");
        assert!(rv_decode(kind, r) == rv_expected(kind, x), "ISA decode differs");
    }
    assert!(le32(&dest[4..]) == tail);
}

fn rv_independent(kind: R) {
    let s = rv_spec(kind);
    let w1: u32 = kani::any();
    let w2: u32 = kani::any();
    kani::assume(w1 & !s.mask == w2 & !s.mask);
    let x: u64 = kani::any();
    let n: bool = kani::any();
    let mut d1 = w1.to_le_bytes();
    let mut d2 = w2.to_le_bytes();
    kind.write_to_value(x, n, &mut d1[..]);
    kind.write_to_value(x, n, &mut d2[..]);
    assert!(d1 == d2, "result depends on the previous content of the immediate field");
}

fn rv_roundtrip(kind: R) {
    let w: u32 = kani::any();
    let x: u64 = kani::any();
    let mut d = w.to_le_bytes();
    kind.write_to_value(x, false, &mut d[..]);
    let (v, _neg) = kind.read_value(&d[..]);
    // read_value returns the sign-extended immediate; compare on the field's bits
    let e = rv_expected(kind, x);
    match kind {
        R::UType | R::CluiType => {
            // documented inverse of the +0x800 carry: (v + 0x800) has the same %hi as x
            assert!(v.wrapping_add(0x800) & rv_expected(kind, u64::MAX - 0x800) == e);
        }
        R::IType | R::SType => assert!(v & 0xfff == e),
        R::BType => assert!(v & 0x1ffe == e),
        R::JType => assert!(v & 0x1f_fffe == e),
        R::CbType => assert!(v & 0x1fe == e),
        R::CjType => assert!(v & 0xffe == e),
        R::UiType => {}
    }
}

macro_rules! rv_harnesses {
    ($($name:ident => $kind:expr),* $(,)?) => { ::paste::paste! { $(
        #[kani::proof] #[kani::unwind(9)]
        fn [<c13_rv_ $name _frame_exact>]() { rv_frame_exact($kind) }
        #[kani::proof] #[kani::unwind(9)]
        fn [<c13_rv_ $name _independent>]() { rv_independent($kind) }
        #[kani::proof] #[kani::unwind(9)]
        fn [<c13_rv_ $name _roundtrip>]() { rv_roundtrip($kind) }
    )* } };
}

rv_harnesses! {
    utype => R::UType, itype => R::IType, stype => R::SType, btype => R::BType, jtype => R::JType,
    cbtype => R::CbType, cjtype => R::CjType, cluitype => R::CluiType,
}

// UiType = AUIPC (U) followed by JALR/ADDI/load (I): both words at once
#[kani::proof]
#[kani::unwind(9)]
fn c13_rv_uitype_frame_exact() {
    let w: u64 = kani::any();
    let x: u64 = kani::any();
    let mut d = w.to_le_bytes();
    R::UiType.write_to_value(x, kani::any(), &mut d[..]);
    let lo = le32(&d);
    let hi = le32(&d[4..]);
    assert!(lo & 0xfff == (w as u32) & 0xfff);
    assert!(hi & 0x000f_ffff == ((w >> 32) as u32) & 0x000f_ffff);
    assert!(rv_decode(R::UType, lo) == rv_expected(R::UType, x));
    assert!(rv_decode(R::IType, hi) == rv_expected(R::IType, x));
    // the pair computes x (mod 2^32): %hi(x) + sext(%lo(x)) == x
    let sum = (lo & 0xffff_f000).wrapping_add((((hi >> 20) as i32) << 20 >> 20) as u32);
    assert!(sum == x as u32);
}

// ------------------------------------------------------------------------------------------
// LoongArch64
// ------------------------------------------------------------------------------------------

fn la_spec(kind: L) -> (u64, u32) {
    match kind {
        L::Shift5 => (0x01ff_ffe0, 20),   // 1RI20 si20[24:5]
        L::Shift10 => (0x003f_fc00, 12),  // 2RI12 si12[21:10]
        L::Branch21 => (0x03ff_fc1f, 21), // 1RI21 offs[15:0] 25:10, offs[20:16] 4:0
        L::Branch26 => (0x03ff_ffff, 26), // I26   offs[15:0] 25:10, offs[25:16] 9:0
        // pcaddu18i si20[24:5] ; jirl offs16[25:10]
        L::Call36 => ((0x03ff_fc00u64 << 32) | 0x01ff_ffe0, 36),
        // pcaddu12i si20[24:5] ; jirl offs16[25:10] of which wild owns [18:10]
        L::Call30 => ((0x0007_fc00u64 << 32) | 0x01ff_ffe0, 0),
    }
}

fn la_decode(kind: L, w: u32) -> u64 {
    (match kind {
        L::Shift5 => (w >> 5) & 0xf_ffff,
        L::Shift10 => (w >> 10) & 0xfff,
        L::Branch21 => ((w >> 10) & 0xffff) | ((w & 0x1f) << 16),
        L::Branch26 => ((w >> 10) & 0xffff) | ((w & 0x3ff) << 16),
        _ => 0,
    }) as u64
}

fn la32_frame_exact(kind: L) {
    let (m, width) = la_spec(kind);
    let m = m as u32;
    let w: u32 = kani::any();
    let tail: u32 = kani::any();
    let x: u64 = kani::any();
    kani::assume(x < (1u64 << width));
    let mut dest = [0u8; 8];
    dest[..4].copy_from_slice(&w.to_le_bytes());
    dest[4..].copy_from_slice(&tail.to_le_bytes());
    kind.write_to_value(x, kani::any(), &mut dest[..4]);
    let r = le32(&dest);
    assert!(r & !m == w & !m, "frame: bits outside the immediate field changed");
    assert!(le32(&dest[4..]) == tail);
    assert!(la_decode(kind, r) == x, "ISA decode differs from the value");
}

fn la32_independent(kind: L) {
    let (m, width) = la_spec(kind);
    let m = m as u32;
    let w1: u32 = kani::any();
    let w2: u32 = kani::any();
    kani::assume(w1 & !m == w2 & !m);
    let x: u64 = kani::any();
    kani::assume(x < (1u64 << width));
    let mut d1 = w1.to_le_bytes();
    let mut d2 = w2.to_le_bytes();
    kind.write_to_value(x, false, &mut d1[..]);
    kind.write_to_value(x, false, &mut d2[..]);
    assert!(d1 == d2);
}

fn la32_roundtrip(kind: L) {
    let (_m, width) = la_spec(kind);
    let w: u32 = kani::any();
    let x: u64 = kani::any();
    kani::assume(x < (1u64 << width));
    let mut d = w.to_le_bytes();
    kind.write_to_value(x, false, &mut d[..]);
    let (v, _) = kind.read_value(&d[..]);
    assert!(v & ((1u64 << width) - 1) == x);
}

macro_rules! la_harnesses {
    ($($name:ident => $kind:expr),* $(,)?) => { ::paste::paste! { $(
        #[kani::proof] #[kani::unwind(9)]
        fn [<c13_la_ $name _frame_exact>]() { la32_frame_exact($kind) }
        #[kani::proof] #[kani::unwind(9)]
        fn [<c13_la_ $name _independent>]() { la32_independent($kind) }
        #[kani::proof] #[kani::unwind(9)]
        fn [<c13_la_ $name _roundtrip>]() { la32_roundtrip($kind) }
    )* } };
}

la_harnesses! {
    shift5 => L::Shift5, shift10 => L::Shift10, branch21 => L::Branch21, branch26 => L::Branch26,
}

// Call36: pcaddu18i rd, si20 ; jirl rd, rj, offs16.  Target offset>>2 = x (36 bits, from the
// relocation's bit range 2..38): si20 = (x + 0x8000) >> 16 (mod 2^20), offs16 = x[15:0].
fn la_call36(x: u64, w: u64) -> u64 {
    let mut d = w.to_le_bytes();
    L::Call36.write_to_value(x, false, &mut d[..]);
    le64(&d)
}

#[kani::proof]
#[kani::unwind(9)]
fn c13_la_call36_frame_exact() {
    let (m, width) = la_spec(L::Call36);
    let w: u64 = kani::any();
    let x: u64 = kani::any();
    kani::assume(x < (1u64 << width));
    // known finding C13-la-call36-carry: the carry of (x + 0x8000) >> 16 out of 20 bits is OR-ed
    // into bit 25 of the first word; excluded here, asserted by the twin below.
    kani::assume(x.wrapping_add(0x8000) >> 36 == 0);
    let r = la_call36(x, w);
    assert!(r & !m == w & !m, "frame");
    let si20 = (r >> 5) & 0xf_ffff;
    let offs16 = (r >> (32 + 10)) & 0xffff;
    assert!(offs16 == x & 0xffff);
    assert!(si20 == (x.wrapping_add(0x8000) >> 16) & 0xf_ffff);
    // semantic: (si20 << 16) + sext16(offs16) == x  (mod 2^36)
    let sum = (si20 << 16).wrapping_add((offs16 as u16 as i16) as i64 as u64) & ((1u64 << 36) - 1);
    assert!(sum == x);
}

#[kani::proof]
#[kani::unwind(9)]
fn c13_la_call36_kf_carry_twin() {
    let (m, width) = la_spec(L::Call36);
    let w: u64 = kani::any();
    let x: u64 = kani::any();
    kani::assume(x < (1u64 << width));
    kani::assume(x.wrapping_add(0x8000) >> 36 != 0);
    let r = la_call36(x, w);
    assert!(r & !m == w & !m, "frame (carry class)");
}

#[kani::proof]
#[kani::unwind(9)]
fn c13_la_call36_independent() {
    let (m, width) = la_spec(L::Call36);
    let w1: u64 = kani::any();
    let w2: u64 = kani::any();
    kani::assume(w1 & !m == w2 & !m);
    let x: u64 = kani::any();
    kani::assume(x < (1u64 << width));
    assert!(la_call36(x, w1) == la_call36(x, w2));
}

// Call30: only locality is claimed (frame + independence over the bits wild documents as owned);
// the value layout of this recent psABI addition is not transcribed here.
#[kani::proof]
#[kani::unwind(9)]
fn c13_la_call30_frame_independent() {
    let (m, _) = la_spec(L::Call30);
    let w1: u64 = kani::any();
    let w2: u64 = kani::any();
    kani::assume(w1 & !m == w2 & !m);
    let x: u64 = kani::any();
    // the only relocation-table row using Call30 (R_LARCH_CALL30) extracts bits 2..19: 17 bits
    kani::assume(x < (1u64 << 17));
    let mut d1 = w1.to_le_bytes();
    let mut d2 = w2.to_le_bytes();
    L::Call30.write_to_value(x, false, &mut d1[..]);
    L::Call30.write_to_value(x, false, &mut d2[..]);
    assert!(le64(&d1) & !m == w1 & !m, "frame");
    assert!(d1 == d2, "independence");
}

// ------------------------------------------------------------------------------------------
// dispatch + masks used by linker-diff
// ------------------------------------------------------------------------------------------

#[kani::proof]
#[kani::unwind(9)]
fn c13_dispatch_is_transparent() {
    // RelocationInstruction::write_to_value / read_value forward to the per-architecture encoders
    let w: u32 = kani::any();
    let x: u64 = kani::any();
    kani::assume(x < (1 << 12));
    let n: bool = kani::any();
    let mut d1 = w.to_le_bytes();
    let mut d2 = w.to_le_bytes();
    RelocationInstruction::AArch64(A::Add).write_to_value(x, n, &mut d1[..]);
    A::Add.write_to_value(x, n, &mut d2[..]);
    assert!(d1 == d2);
    let mut d1 = w.to_le_bytes();
    let mut d2 = w.to_le_bytes();
    RelocationInstruction::RiscV(R::SType).write_to_value(x, n, &mut d1[..]);
    R::SType.write_to_value(x, n, &mut d2[..]);
    assert!(d1 == d2);
    let mut d1 = w.to_le_bytes();
    let mut d2 = w.to_le_bytes();
    RelocationInstruction::LoongArch64(L::Shift10).write_to_value(x, n, &mut d1[..]);
    L::Shift10.write_to_value(x, n, &mut d2[..]);
    assert!(d1 == d2);
    assert!(RelocationInstruction::AArch64(A::Add).read_value(&d1[..]) == A::Add.read_value(&d1[..]));
    assert!(RelocationInstruction::RiscV(R::SType).read_value(&d1[..]) == R::SType.read_value(&d1[..]));
    assert!(RelocationInstruction::LoongArch64(L::Shift10).read_value(&d1[..]) == L::Shift10.read_value(&d1[..]));
}

#[kani::proof]
#[kani::unwind(9)]
fn c13_bit_mask_matches_isa_field() {
    // bit_mask(full-width range) must be the complement of the ISA field mask
    use crate::bit_misc::BitRange;
    let k: u8 = kani::any();
    kani::assume(k < 9);
    let (kind, _) = match k {
        0 => (A::Adr, 0), 1 => (A::Movkz, 0), 2 => (A::Ldr, 0), 3 => (A::LdrRegister, 0),
        4 => (A::Add, 0), 5 => (A::LdSt, 0), 6 => (A::TstBr, 0), 7 => (A::Bcond, 0),
        _ => (A::JumpCall, 0),
    };
    let (m, width) = a64_spec(kind);
    let got = RelocationInstruction::AArch64(kind).bit_mask(BitRange { start: 0, end: width });
    assert!(u32::from_le_bytes(got) == !m);
}

// ------------------------------------------------------------------------------------------
// helper contracts (BitExtraction for u64, utils): proved once
// ------------------------------------------------------------------------------------------

#[kani::proof]
fn c13_extract_bit_range_spec() {
    use crate::bit_misc::BitExtraction;
    let v: u64 = kani::any();
    let a: u32 = kani::any();
    let b: u32 = kani::any();
    kani::assume(a < b && b <= 64);
    let r = v.extract_bit_range(a..b);
    let width = b - a;
    let expect = if width == 64 { v } else { (v >> a) & ((1u64 << width) - 1) };
    assert!(r == expect);
    if a < 64 {
        assert!(v.extract_bit(a) == (v >> a) & 1);
    }
}

#[kani::proof]
fn c13_low_bits_sign_extend_spec() {
    use crate::bit_misc::BitExtraction;
    let v: u64 = kani::any();
    let n: u32 = kani::any();
    kani::assume(n >= 1 && n < 64);
    assert!(v.low_bits(n) == v & ((1u64 << n) - 1));
    let s = v.low_bits_signed(n);
    // arithmetic definition of sign extension from bit n-1
    let expect = (((v << (64 - n)) as i64) >> (64 - n)) as u64;
    assert!(s == expect);
    let bit: u32 = kani::any();
    kani::assume(bit < 63);
    let t = v.low_bits(bit + 1).sign_extend(bit);
    assert!(t == (((v << (63 - bit)) as i64) >> (63 - bit)) as u64);
}

#[kani::proof]
#[kani::unwind(9)]
fn c13_or_and_from_slice_spec() {
    use crate::utils::{and_from_slice, or_from_slice, u32_from_slice};
    let d: u64 = kani::any();
    let m: u32 = kani::any();
    let mut a = d.to_le_bytes();
    or_from_slice(&mut a[..], &m.to_le_bytes());
    assert!(u64::from_le_bytes(a) == d | m as u64);
    let mut b = d.to_le_bytes();
    and_from_slice(&mut b[..], &m.to_le_bytes());
    assert!(u64::from_le_bytes(b) == (d & (m as u64 | 0xffff_ffff_0000_0000)));
    assert!(u32_from_slice(&d.to_le_bytes()[..]) == d as u32);
}

// ------------------------------------------------------------------------------------------
// vacuity canaries (must fail)
// ------------------------------------------------------------------------------------------

#[kani::proof]
#[kani::unwind(9)]
fn c13_canary_a64_reachable() {
    let w: u32 = kani::any();
    let x: u64 = kani::any();
    kani::assume(x < (1 << 26));
    let mut d = w.to_le_bytes();
    A::JumpCall.write_to_value(x, false, &mut d[..]);
    assert!(le32(&d) == w, "canary: must fail");
}

#[kani::proof]
#[kani::unwind(9)]
fn c13_canary_rv_reachable() {
    let w: u32 = kani::any();
    let x: u64 = kani::any();
    let mut d = w.to_le_bytes();
    R::JType.write_to_value(x, false, &mut d[..]);
    assert!(le16(&d) as u32 == w & 0xffff && le32(&d) == w, "canary: must fail");
}
