// C29 harnesses.  Child module of libwild::alignment (woven in by tools/weave.py), so `super::`
// reaches the private items.  The contracts themselves are in check.toml and are attached to the
// real functions; the harnesses below only pick the symbolic domain.
use super::*;

#[path = "__verif_stubs.rs"]
mod stubs;

fn any_alignment() -> Alignment {
    let exponent: u8 = kani::any();
    // type invariant of Alignment ("always a power of two" no larger than 2^16)
    kani::assume(exponent <= 16);
    Alignment { exponent }
}

#[kani::proof_for_contract(Alignment::new)]
#[kani::stub(alloc::fmt::format, stubs::verif_format_stub)]
fn c29_new_accepts_exactly_pow2_le_64k() {
    let raw: u64 = kani::any();
    let r = Alignment::new(raw);
    core::mem::forget(r);
}

#[kani::proof_for_contract(Alignment::value)]
fn c29_value() {
    let a: Alignment = Alignment { exponent: kani::any() };
    a.value();
}

#[kani::proof_for_contract(Alignment::mask)]
fn c29_mask() {
    let a: Alignment = Alignment { exponent: kani::any() };
    a.mask();
}

#[kani::proof_for_contract(Alignment::align_down)]
fn c29_align_down() {
    let a: Alignment = Alignment { exponent: kani::any() };
    a.align_down(kani::any());
}

#[kani::proof_for_contract(Alignment::align_up)]
fn c29_align_up() {
    let a: Alignment = Alignment { exponent: kani::any() };
    a.align_up(kani::any());
}

#[kani::proof_for_contract(Alignment::align_up_usize)]
fn c29_align_up_usize() {
    let a: Alignment = Alignment { exponent: kani::any() };
    a.align_up_usize(kani::any());
}

#[kani::proof_for_contract(Alignment::align_modulo)]
#[kani::stub_verified(Alignment::align_up)]
fn c29_align_modulo() {
    let a: Alignment = Alignment { exponent: kani::any() };
    a.align_modulo(kani::any(), kani::any());
}

// Same postcondition, independent formulation, real align_up body executed.
#[kani::proof]
fn c29_align_modulo_inlined() {
    let a = any_alignment();
    let reference: u64 = kani::any();
    let offset: u64 = kani::any();
    let align = 1u64 << a.exponent;
    kani::assume(offset <= u64::MAX - 2 * align + 1);
    let r = a.align_modulo(reference, offset);
    let up = offset.div_ceil(align) * align;
    assert!(r >= up);
    assert!(r - up < align);
    assert!(r % align == reference % align);
    // smallest: no value in [up, r) is congruent to reference
    let k: u64 = kani::any();
    kani::assume(k >= up && k < r);
    assert!(k % align != reference % align);
}

#[kani::proof]
fn c29_align_up_precondition_is_weakest() {
    let a = any_alignment();
    let value: u64 = kani::any();
    let align = 1u64 << a.exponent;
    kani::assume(value > u64::MAX - (align - 1));
    // no representable multiple of `align` is >= value
    let r: u64 = kani::any();
    kani::assume(r >= value);
    assert!(r % align != 0);
}

#[kani::proof]
fn c29_constants_valid() {
    let all = [
        MIN, MAX, SYMTAB_ENTRY, SYMTAB_SHNDX_ENTRY, GOT_ENTRY, RELA_ENTRY, RELR_ENTRY, GNU_HASH,
        SYSV_HASH, PROGRAM_HEADER_ENTRY, PLT, VERSION_D, VERSION_R, VERSYM, USIZE, EH_FRAME_HDR,
        NOTE_GNU_PROPERTY, NOTE_GNU_BUILD_ID, STACK_ALIGNMENT, MACHO_PAGE_ALIGNMENT,
    ];
    let i: usize = kani::any();
    kani::assume(i < all.len());
    assert!(all[i].exponent <= 16);
    assert!(MIN.exponent == 0);
    assert!(MAX.exponent == 16);
    assert!(NUM_ALIGNMENTS == 17);
    assert!(Alignment::default().exponent == 0);
}

#[kani::proof]
fn c29_min_alignment_monotone() {
    let a = any_alignment();
    let b = any_alignment();
    assert!((a <= b) == (a.value() <= b.value()));
    if a <= b {
        assert!(b.value() % a.value() == 0);
        // a value aligned to the larger alignment is aligned to the smaller one
        let v: u64 = kani::any();
        assert!(b.align_down(v) % a.value() == 0);
    }
}

#[kani::proof]
fn c29_canary_align_up_reachable() {
    let a = any_alignment();
    let v: u64 = kani::any();
    kani::assume(v <= u64::MAX - ((1u64 << a.exponent) - 1));
    let r = a.align_up(v);
    assert!(r == 0, "canary: must fail");
}

#[kani::proof]
fn c29_canary_align_modulo_reachable() {
    let a = any_alignment();
    let off: u64 = kani::any();
    kani::assume(off <= u64::MAX - 2 * (1u64 << a.exponent) + 1);
    let r = a.align_modulo(kani::any(), off);
    assert!(r == 0, "canary: must fail");
}

// ---- explicit-assertion twins (same postconditions as the woven contracts, stated independently;
// used for native replay because Kani's playback does not evaluate contract clauses) ----
#[kani::proof]
fn c29_align_down_explicit() {
    let a = any_alignment();
    let v: u64 = kani::any();
    let align = 1u64 << a.exponent;
    let r = a.align_down(v);
    assert!(r <= v && v - r < align && r % align == 0);
}

#[kani::proof]
fn c29_align_up_explicit() {
    let a = any_alignment();
    let v: u64 = kani::any();
    let align = 1u64 << a.exponent;
    kani::assume(v <= u64::MAX - (align - 1));
    let r = a.align_up(v);
    assert!(r >= v && r - v < align && r % align == 0);
    let u = a.align_up_usize(v as usize);
    assert!(u as u64 == r);
}

#[kani::proof]
#[kani::stub(alloc::fmt::format, stubs::verif_format_stub)]
fn c29_new_explicit() {
    let raw: u64 = kani::any();
    let r = Alignment::new(raw);
    let pow2_le_64k = raw.count_ones() == 1 && raw <= 65536;
    assert!(r.is_ok() == pow2_le_64k);
    if let Ok(a) = &r {
        assert!(a.value() == raw);
    }
    core::mem::forget(r);
}
