// C11: AArch64 range-extension thunks -- how much executable code lies outside the primary part.
//
// Child module of libwild::thunks.  Contract of the real
//     ThunkLayoutBuilder::compute_non_primary_text_size(output_sections, section_part_sizes)
// whose result offsets every primary object's planned position (collect_primary_ranges): the
// planner may only judge a branch "in range" if no executable byte is left out of the distance,
// wherever the layout places it, so
//     result == sum of the sizes of ALL parts of ALL executable output sections, except the one
//               primary function part
// (in particular parts with a HIGHER part id than the primary - .init, .fini, custom executable
// sections, the other alignment classes of .text - count exactly like those with a lower id).
// `OutputSections` is nondeterministic storage with section_infos initialised (DESIGN.md 1.4a).
// BOUNDED: the built-in single-part sections plus three regular (17-part) sections; the
// EXECINSTR flag of one single-part and of the three regular sections, the sizes of their parts
// and the choice of the primary part are symbolic.
use super::*;
use crate::elf::Elf;
use crate::layout_rules::SectionKind;
use crate::output_section_id::OutputSectionId;
use crate::output_section_id::OutputSections;
use crate::output_section_id::SectionName;
use crate::output_section_id::SectionOutputInfo;
use crate::output_section_part_map::OutputSectionPartMap;
use crate::part_id::NUM_SINGLE_PART_SECTIONS;
use linker_utils::elf::shf;

#[path = "__verif_stubs.rs"]
mod stubs;
#[path = "__verif_tracing_stubs.rs"]
mod tstubs;

const NUM_ALIGN: usize = crate::alignment::NUM_ALIGNMENTS;
const REGULAR: usize = 3;

fn info(exec: bool) -> SectionOutputInfo<'static, Elf> {
    let mut attrs: crate::elf::SectionAttributes = Default::default();
    if exec {
        attrs.flags = shf::EXECINSTR;
    }
    SectionOutputInfo {
        kind: SectionKind::Primary(SectionName(b"")),
        section_attributes: attrs,
        min_alignment: crate::alignment::MIN,
        location: None,
        secondary_order: None,
    }
}

#[kani::proof]
#[kani::unwind(100)]
#[kani::stub(alloc::fmt::format, stubs::verif_format_stub)]
#[kani::stub(tracing::callsite::DefaultCallsite::interest, tstubs::verif_tracing_interest_never)]
#[kani::stub(tracing::__macro_support::__is_enabled, tstubs::verif_tracing_not_enabled)]
#[kani::stub(tracing::Event::dispatch, tstubs::verif_tracing_event_dispatch_noop)]
#[kani::stub(tracing::Span::new, tstubs::verif_tracing_span_none)]
#[kani::stub(perfetto_recorder::record_event, tstubs::verif_perfetto_record_noop)]
fn c11_non_primary_text_size_counts_every_other_executable_part() {
    let nsingle = NUM_SINGLE_PART_SECTIONS as usize;
    // which sections are executable: single-part section number `s_idx` and the regular ones
    let s_idx: usize = kani::any();
    kani::assume(s_idx < nsingle);
    let s_exec: bool = kani::any();
    let r_exec: [bool; REGULAR] = kani::any();
    let mut infos: Vec<SectionOutputInfo<'static, Elf>> = Vec::with_capacity(nsingle + REGULAR);
    let mut k = 0;
    while k < nsingle {
        infos.push(info(k == s_idx && s_exec));
        k += 1;
    }
    let mut r = 0;
    while r < REGULAR {
        infos.push(info(r_exec[r]));
        r += 1;
    }
    let mut os_storage = core::mem::MaybeUninit::<OutputSections<'static, Elf>>::uninit();
    unsafe {
        core::ptr::addr_of_mut!((*os_storage.as_mut_ptr()).section_infos)
            .write(crate::output_section_map::OutputSectionMap::from_values(infos));
    }
    // sizes: symbolic for the one single-part section and for two parts of each regular section
    // (the lowest and a symbolic one), zero elsewhere
    let nparts = nsingle + REGULAR * NUM_ALIGN;
    let mut sizes: OutputSectionPartMap<u64> = OutputSectionPartMap::with_size(nparts);
    let s_size: u64 = kani::any();
    kani::assume(s_size <= 1 << 40);
    *sizes.get_mut(PartId::from_usize(s_idx)) = s_size;
    let pick: [usize; REGULAR] = kani::any();
    let r_size: [[u64; 2]; REGULAR] = kani::any();
    let mut r = 0;
    while r < REGULAR {
        kani::assume(pick[r] >= 1 && pick[r] < NUM_ALIGN && r_size[r][0] <= 1 << 40 && r_size[r][1] <= 1 << 40);
        let base = nsingle + r * NUM_ALIGN;
        *sizes.get_mut(PartId::from_usize(base)) = r_size[r][0];
        *sizes.get_mut(PartId::from_usize(base + pick[r])) = r_size[r][1];
        r += 1;
    }
    // the primary function part: some part of the middle regular section
    let prim_off: usize = kani::any();
    kani::assume(prim_off < NUM_ALIGN);
    let primary = PartId::from_usize(nsingle + NUM_ALIGN + prim_off);
    let builder = ThunkLayoutBuilder { branch_range: 0, primary_function_part_id: primary, non_primary_referenced_symbols: SegQueue::new() };
    let got = builder.compute_non_primary_text_size(unsafe { &*os_storage.as_ptr() }, &sizes);
    core::mem::forget(builder);

    // expected: every executable part except the primary one
    let mut want: u64 = 0;
    if s_exec {
        want += s_size;
    }
    let mut r = 0;
    while r < REGULAR {
        if r_exec[r] {
            let base = nsingle + r * NUM_ALIGN;
            if PartId::from_usize(base) != primary {
                want += r_size[r][0];
            }
            if PartId::from_usize(base + pick[r]) != primary {
                want += r_size[r][1];
            }
        }
        r += 1;
    }
    assert!(got == want, "executable bytes outside the primary part are not all counted (or the primary part is counted)");
}
