// C11: AArch64 long branches reach their intended target -- thunk block assignment kernel.
//
// Child module of libwild::thunks.  Contract of
//     assign_thunk_blocks(objects, max_branch_range, assign) -> num_blocks
// for objects given in increasing address order (start_i < end_i <= start_{i+1}):
//   (1) every object is assigned exactly once, to a block id < num_blocks;
//   (2) every block id < num_blocks has exactly one owner (the object its thunks are placed after);
//   (3) block ids are handed out in address order (non-decreasing along the object sequence);
//   (4) REACH: with pos(b) := end address of b's owner (where the block's thunks are emitted),
//       every object o assigned to b satisfies
//           max(o.end, pos(b)) - min(o.start, pos(b))
//               < max_branch_range + extent(owner(b)) + extent(o),   extent(i) = padding before i + size(i)
//       i.e. any branch inside o is within max_branch_range of b plus the extents of the two
//       objects -- the slack ThunkLayoutBuilder::new reserves by subtracting
//       MAXIMUM_THUNK_BYTES_PER_BLOCK from the hardware range.  (Measured: the bound without the
//       padding terms, and the bounds with only one of the two extents, are all refuted by CBMC,
//       so this is the strongest bound of this shape; recorded as an assumption of the claim.)
//   (5) no objects -> no blocks.
// BOUNDED: at most N objects; sizes, gaps and the range are symbolic.
use super::*;

const N: usize = 5;
const BIG: u64 = 1 << 40;

fn run(n: usize) -> bool {
    let sizes: [u64; N] = kani::any();
    let gaps: [u64; N] = kani::any();
    let range: u64 = kani::any();
    kani::assume(range >= 1 && range <= BIG);
    let mut start = [0u64; N];
    let mut end = [0u64; N];
    let mut pos: u64 = kani::any();
    kani::assume(pos <= BIG);
    let mut i = 0;
    while i < N {
        kani::assume(sizes[i] >= 1 && sizes[i] <= BIG && gaps[i] <= BIG);
        start[i] = pos + gaps[i];
        end[i] = start[i] + sizes[i];
        pos = end[i];
        i += 1;
    }
    let objs: [(FileId, u64, u64); N] = [
        (FileId::new(0, 0), start[0], end[0]),
        (FileId::new(0, 1), start[1], end[1]),
        (FileId::new(0, 2), start[2], end[2]),
        (FileId::new(0, 3), start[3], end[3]),
        (FileId::new(0, 4), start[4], end[4]),
    ];
    let mut count = [0u8; N];
    let mut block = [0usize; N];
    let mut owner = [false; N];
    let num_blocks = assign_thunk_blocks(objs[..n].iter().copied(), range, |fid, bid, is_owner| {
        let k = fid.file();
        if k < N {
            count[k] += 1;
            block[k] = bid.as_usize();
            owner[k] = is_owner;
        }
    });
    if n == 0 {
        assert!(num_blocks == 0, "blocks created for no objects");
        return true;
    }
    assert!(num_blocks >= 1 && num_blocks <= n, "number of blocks out of range");
    let mut i = 0;
    while i < N {
        if i < n {
            assert!(count[i] == 1, "object not assigned exactly once");
            assert!(block[i] < num_blocks, "block id out of range");
            if i > 0 {
                assert!(block[i - 1] <= block[i], "block ids not in address order");
            }
        } else {
            assert!(count[i] == 0, "assignment for an object that was not supplied");
        }
        i += 1;
    }
    // one owner per block; reach of every object to its block
    let b: usize = kani::any();
    kani::assume(b < num_blocks);
    let mut owners = 0u8;
    let mut owner_idx = 0usize;
    let mut i = 0;
    while i < N {
        if i < n && block[i] == b && owner[i] {
            owners += 1;
            owner_idx = i;
        }
        i += 1;
    }
    assert!(owners == 1, "a thunk block does not have exactly one owner");
    let o: usize = kani::any();
    kani::assume(o < n && block[o] == b);
    let p = end[owner_idx];
    let hi = if end[o] > p { end[o] } else { p };
    let lo = if start[o] < p { start[o] } else { p };
    // extent(i) := padding before object i + its size (objects are laid out back to back; the
    // padding is alignment padding, at most 64 KiB per object)
    assert!(
        hi - lo < range + (gaps[owner_idx] + sizes[owner_idx]) + (gaps[o] + sizes[o]),
        "an object is further from its thunk block than the branch range plus the extents of the two objects"
    );
    num_blocks > 1
}

#[kani::proof]
#[kani::unwind(7)]
fn c11_block_assignment_covers_and_reaches_up_to_5_objects() {
    let n: usize = kani::any();
    kani::assume(n <= N);
    run(n);
}

#[kani::proof]
#[kani::unwind(7)]
fn c11_canary_second_block_reachable() {
    let multi = run(3);
    assert!(!multi, "canary: a second block must be reachable");
}
