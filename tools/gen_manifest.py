#!/usr/bin/env python3
"""Regenerate MANIFEST.json from tools/manifest_src.py (kept as code so notes stay next to checks)."""
import json, os, sys
HERE = os.path.dirname(os.path.abspath(__file__))
sys.path.insert(0, HERE)
import manifest_src as M
VERIF = os.path.dirname(HERE)
props = [json.loads(l)["id"] for l in open(os.path.join(VERIF, "properties.jsonl"))]
checks = []
for pid in props:
    if pid in M.CLAIMED and pid in M.READY and os.path.exists(os.path.join(VERIF, "contracts", pid, "check.toml")):
        c = M.CLAIMED[pid]
        checks.append({
            "property_id": pid,
            "quick_cmd": f"./check {pid} --tier quick",
            "thorough_cmd": f"./check {pid} --tier thorough",
            "evidence_file": f"/verif/evidence/{pid}.json",
            "replay_cmd_template": f"./check {pid} --replay {{path}}",
            "engine": c.get("engine", "kani-contracts"),
            "level_claimed": {"category": c["category"], "text": c["text"], "design_ref": c["design_ref"]},
            "level_note": c["note"],
            "technique": c["technique"],
        })
claimed = {c["property_id"] for c in checks}
na = []
for pid in props:
    if pid in claimed:
        continue
    reason = M.NOT_APPLICABLE.get(pid) or M.PENDING.get(pid)
    assert reason, pid
    na.append({"property_id": pid, "reason": reason})
man = {
    "version": 1,
    "setup_cmd": "python3 tools/selftest.py --build-only",
    "hooks": {
        "guard": "kani",
        "enable": "none in /repo: contracts are woven from /verif/contracts/<id>/ into a scratch copy of /repo's working tree on every run (tools/weave.py); the woven copy is compiled by cargo kani, which sets cfg(kani)",
        "baseline_off_cmd": "cd /repo && cargo test --workspace --no-fail-fast --offline",
        "source_commits": [],
        "add_only": True,
    },
    "engines": M.ENGINES,
    "checks": checks,
    "notes": M.NOTES,
    "not_applicable": na,
}
json.dump(man, open(os.path.join(VERIF, "MANIFEST.json"), "w"), indent=1)
print(f"claimed={len(checks)} not_applicable={len(na)}")
