#!/usr/bin/env python3
"""tools/mk_seed_prompt.py <Cnn> [suffix]: write /tmp/seedprompt-<Cnn><suffix>.txt (property text only; nothing from /verif)."""
import json, sys, os
pid = sys.argv[1]; suffix = sys.argv[2] if len(sys.argv) > 2 else ""
here = os.path.dirname(os.path.abspath(__file__))
props = {json.loads(l)["id"]: json.loads(l) for l in open(os.path.join(here, "..", "properties.jsonl"))}
p = props[pid]
t = open(os.path.join(here, "seed_agent_prompt.txt")).read()
t = t.replace("@ID@", pid).replace("@SUFFIX@", suffix).replace("@TITLE@", p["title"]).replace("@STATEMENT@", p["statement"])
extra = sys.argv[3] if len(sys.argv) > 3 else ""
if extra:
    t += "\nADDITIONAL FOCUS: " + extra + "\n"
out = f"/tmp/seedprompt-{pid}{suffix}.txt"
open(out, "w").write(t)
print(out)
