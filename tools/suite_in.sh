#!/bin/sh
# tools/suite_in.sh <worktree>: run the pinned suite in a seed worktree and list the failing tests
# that are not baseline failures.
cd "$1" || exit 2
LOG=/var/tmp/suite-$(basename "$1").log
cargo nextest run --workspace --no-fail-fast --tool-config-file pb:/w/lib/nextest.toml --profile pb --test-threads 8 --offline > "$LOG" 2>&1
grep -E "Summary" "$LOG"
grep -E "^ +(FAIL|TIMEOUT)" "$LOG" | sed -E 's/^ +(FAIL|TIMEOUT) \[[^]]*\] \([^)]*\) //' | sort -u | grep -v -e check_sources_format -e z-pack-relative-relocs -e symbolic-non-weak -e tls-apx-relocs/default | sed 's/^/EXTRA: /'
echo "suite done: $1"
