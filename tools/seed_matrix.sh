#!/bin/sh
# tools/seed_matrix.sh [pairs...]: run seeded changes against checks, one at a time (each applies
# the patch to /repo, runs the check with --no-evidence, undoes the patch).  A pair is
# <seed-dir>:<Cnn>.  Results are appended to /var/tmp/seed-matrix.log.
cd /verif || exit 2
OUT=/var/tmp/seed-matrix.log
for pair in "$@"; do
  seed=${pair%%:*}; prop=${pair##*:}
  echo "=== $seed -> $prop $(date +%T)" >> $OUT
  sh tools/try_seed.sh "$prop" "seeded/$seed/patch.diff" --tier quick > /var/tmp/seed-$seed-$prop.out 2>&1
  rc=$?
  grep -E "^VIOLATION|^KNOWN-FINDING|check exit code|\[quick\]" /var/tmp/seed-$seed-$prop.out | cut -c1-300 >> $OUT
  grep -E "^  obligation" /var/tmp/seed-$seed-$prop.out | cut -c1-260 | head -4 >> $OUT
  echo "rc=$rc" >> $OUT
  git -C /repo status --short | head -3 >> $OUT
done
echo MATRIXDONE >> $OUT
