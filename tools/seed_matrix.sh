#!/bin/sh
# tools/seed_matrix.sh [pairs...]: run seeded changes against checks, 3 at a time (each on its own
# scratch copy of /repo's HEAD, see try_seed.sh).  A pair is <seed-dir>:<Cnn>.  Results are
# appended to /var/tmp/seed-matrix.log.
cd /verif || exit 2
if [ "$1" = "--one" ]; then
  pair=$2; seed=${pair%%:*}; prop=${pair##*:}
  sh tools/try_seed.sh "$prop" "seeded/$seed/patch.diff" --tier quick > /var/tmp/seed-$seed-$prop.out 2>&1
  rc=$?
  {
    echo "=== $seed -> $prop rc=$rc $(date +%T)"
    grep -E "^VIOLATION|^KNOWN-FINDING|\[quick\]" /var/tmp/seed-$seed-$prop.out | cut -c1-300
    grep -E "^  obligation" /var/tmp/seed-$seed-$prop.out | cut -c1-260 | head -4
  } >> /var/tmp/seed-matrix.log
  exit 0
fi
printf "%s\n" "$@" | xargs -P 3 -I{} sh tools/seed_matrix.sh --one {}
echo MATRIXDONE >> /var/tmp/seed-matrix.log
