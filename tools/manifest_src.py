"""Source of MANIFEST.json (tools/gen_manifest.py). One entry per property."""

KANI = "Kani 0.68 function contracts / loop-free full-domain harnesses over CBMC 6.11 on the real crate (contracts woven into a scratch copy of /repo's working tree; nothing but inserted lines differs); for C24, C31 (export gate), C33, C36 (merge) and the C16/C22 arithmetic leaves: the same harness style on functions and statement runs extracted mechanically from the real files on every run (Route S, DESIGN.md 1.3)"

ENGINES = [
    {"name": "kani-contracts", "path": "/verif/tools/run_check.py",
     "serves_properties": ["C01", "C08", "C09", "C11", "C12", "C13", "C14", "C15", "C17", "C22", "C23", "C24", "C29", "C30", "C31", "C33", "C36"],
     "kind_free_text": KANI},
    {"name": "verus+kani", "path": "/verif/tools/extract.py",
     "serves_properties": ["C02", "C16"],
     "kind_free_text": "Verus 0.2026.09.13 (Z3) on items mechanically extracted from the real files on every run (rewrite rules X1-X10 in DESIGN.md 1.2, each counted in the evidence), paired with Kani harnesses on the real crate for replay"},
]

NOTES = ("Contract-based deductive verification only. exit 0 = every obligation of the tier discharged "
         "(or a listed known finding); exit 1 = VIOLATION line; exit 2 = undecided (lost anchor, "
         "compile error of the woven copy, timeout, vacuity guard) and is never an alarm. Bounded "
         "stand-ins are reported under coverage.bounded_obligations and are not counted as proved.")

CLAIMED = {
    "C29": {
        "category": "proof",
        "design_ref": "DESIGN.md section 6, C29",
        "technique": "Kani function contracts (proof_for_contract + stub_verified) on Alignment::{new,value,mask,align_up,align_up_usize,align_down,align_modulo}, CBMC bit-precise over all 17 exponents x 2^64 x 2^64",
        "text": "Each of the seven Alignment functions carries a pre/postcondition taken from the property statement "
                "(smallest multiple not below / largest not above / smallest congruent value at or above the aligned-up "
                "input / accepted iff power of two <= 2^16) and CBMC discharges it for every argument value with no bound; "
                "align_modulo is proved against align_up's contract (modular) and again with the body inlined. A proof is "
                "the right level because the functions are loop-free integer code whose whole input space is symbolic.",
        "note": "Trusted: Kani's MIR->GOTO translation, CBMC, CaDiCaL, std's u64::next_multiple_of as compiled by Kani's toolchain "
                "(executed, not specified), alloc::fmt::format stubbed on Alignment::new's error path (message text only). "
                "align_up/align_modulo are specified only where the result is representable in u64 (a lemma proves no u64 "
                "result exists otherwise); overflow checks are those of the debug profile. Callers elsewhere in libwild are "
                "not checked against these preconditions.",
    },
    "C13": {
        "category": "proof",
        "design_ref": "DESIGN.md section 6, C13",
        "technique": "Kani loop-free full-domain harnesses (contract form: assume pre / call real encoder / assert post) per instruction kind on AArch64Instruction, RiscVInstruction, LoongArch64Instruction::{write_to_value,read_value}; CBMC over every 32/64-bit word x every field value",
        "text": "For each of the 25 ELF instruction kinds the real encoder is run on a fully symbolic instruction word and value and CBMC proves: bits outside the ISA's immediate field (mask transcribed from the ISA manual, not taken from wild) and bytes after the instruction are unchanged; the ISA's decoder applied to the result returns the value; two words differing only inside the field give identical results; wild's read_value inverts write_to_value. These are loop-free bit-vector functions, so a SAT proof over the whole domain is the natural level.",
        "note": "Trusted: field masks/decoders transcribed from Arm ARM C6.2, RISC-V ISA ch. 2.3/16, LoongArch manual vol.1; Kani/CBMC. AArch64/LoongArch kinds are specified for values that fit the field (x < 2^width) - that every relocation-table row hands the encoder such a value is proved in C12/C01's table lemma for AArch64 only. MachOLow12 excluded (Mach-O only). LoongArch Call30: frame+independence only. Two known findings (RISC-V UType.read_value, LoongArch Call36 carry) are listed in known_findings.json.",
    },
    "C12": {
        "category": "proof",
        "design_ref": "DESIGN.md section 6, C12",
        "technique": "Kani full-domain harnesses over symbolic r_type: u32 x value: u64 on x86_64::relocation_from_raw / aarch64::relocation_type_from_raw (and riscv64::relocation_type_from_raw for the lui/auipc class) -> RelocationKindInfo::write_to_buffer, against accept sets transcribed from GNU ld, lld, aaelf64 and the RISC-V ISA; plus contracts of AllowedRange::{from_bit_size,from_byte_size,contains}",
        "text": "For every relocation type number and every 64-bit value CBMC proves on the real tables and the real write_to_buffer: a value both GNU ld and lld accept is accepted, a value both reject is rejected, the field width is the psABI's, an accepted value reads back from the written bytes as itself (never silently truncated), and an error leaves the buffer untouched; for AArch64 additionally that the written instruction field is X[hi:lo] of the psABI row; for the eight RISC-V relocation types of the lui/auipc class that a value is accepted exactly when a sign-extending U-type result plus a signed 12-bit immediate can produce it on RV64. The tables are const match expressions without loops, so the whole domain is covered symbolically.",
        "note": "Trusted: the hand transcription of bfd's howto table, lld's relocate() checks and aaelf64 5.7 (rows whose check could not be transcribed confidently are marked Unknown and get only oracle-free obligations); format/backtrace stubs on the error path. Not covered: the computation of the value handed to write_to_buffer (apply_relocation), the remaining RISC-V rows and the LoongArch table, ULEB128 pairs.",
    },
    "C14": {
        "category": "proof",
        "design_ref": "DESIGN.md section 6, C14",
        "technique": "Kani loop-free full-domain harnesses on the real <ElfX86_64 as Arch>::new_relaxation, TlsGdForm::identify, RelaxationKind::{apply,next_modifier} and write_to_buffer, against an x86 decoder/evaluator written from the psABI; symbolic 24-byte window x flags x output kind x symbol value x section address",
        "text": "For every byte window that is a psABI-permitted instruction form (no prefix, REX, APX REX2), every ValueFlags/OutputKind, every symbol value and section address, CBMC proves on the real code: if a relaxation is returned then the rewritten instruction is the same operation on the same register (REX.R->REX.B, REX2 R3/R4->B3/B4) and feeds it exactly the value the original would with its GOT slot holding S - including sign extension of imm32 under REX.W - or the link fails with an overflow; nothing outside the instruction changes; TLS GD/LD/TLSDESC replacements equal the ABI's byte sequences and skip the paired relocation; rewrites happen only in executable sections and never bypass the GOT for interposable symbols. The functions are loop-free, so the whole input space is symbolic: a proof.",
        "note": "Trusted: the spec decoder/evaluator (psABI B.2/11.1, Intel SDM opcode map, APX REX2 layout); caller_value() models the three lines of apply_relocation between Relaxation::apply and write_to_buffer (value = S+A or S+A-place) because that 470-line generic function is out of Kani's reach; original addend assumed -4. CODE_5/CODE_6 (EVEX) forms, TlsGdToLocalExecLarge and TlsLdToLocalExec64 get only guard/frame obligations. Behaviour on byte windows that are not psABI forms is C22's subject, not this check's.",
    },
    "C17": {
        "category": "proof",
        "design_ref": "DESIGN.md section 6, C17",
        "technique": "Kani full-domain harnesses on the real subprocess::wait_for_child_done (libc calls linked against an any-result C stub via -Z c-ffi) and error::report_error_and_exit; every 32-bit wait status x waitpid result x fread outcome",
        "text": "PARENT SIDE OF FORK MODE ONLY. For every wait status word the kernel can store, every waitpid result and both outcomes of reading the success byte, CBMC proves on the real function that the parent's exit code is 0 only if the success byte arrived or the worker exited normally with code 0, that a worker killed by any signal yields a code that is non-zero modulo 256, that a normal exit code is propagated, and that the error path exits non-zero. Loop-free code over a 2^32 x 2^32 domain: a proof.",
        "note": "Not decided: that a panicking, aborting or OOM-killed worker never writes the success byte (argued from subprocess_result's control flow: the byte is written after the last `?`), the no-fork path's reliance on the Rust runtime's exit codes, and whether the output file is complete when the byte is sent - these are OS/runtime semantics outside any contract. Trusted: stubs.c as the OS contract; glibc's wait-status encoding.",
    },
    "C16": {
        "category": "proof",
        "design_ref": "DESIGN.md section 6, C16",
        "engine": "verus+kani",
        "technique": "Verus (Z3) structural induction over ALL expression trees on the mechanically extracted evaluate_expression body against a recursive spec function of GNU ld's semantics; Kani (CBMC, z3 for division) on the same extraction for the stub contracts, per-operator bit-precise checks and evaluate_assertions",
        "text": "EVALUATOR ONLY (the parser's precedence/associativity is not covered). evaluate_expression is cut out of the real file on every run (rewrite rules X1-X6, X9 counted in the evidence), given `ensures pure(expr) ==> result == spec_eval(expr)` / `decreases expr`, and Verus proves it for every tree of literals and operators: 64-bit wrapping + - *, signed /, unsigned comparisons, shift counts mod 64, short-circuit && ||, MIN/MAX, ~ ! unary-, ALIGN; errors exactly on /0 and ALIGN(0); termination. Three sub-expressions Verus cannot model (out-of-range `as` casts) are replaced by contract-carrying stubs whose contracts Kani proves on the same extracted text for all 2^128 operand pairs. Kani also proves ASSERT fails exactly when its expression is zero. Induction over unbounded trees needs a deductive prover; the bit-level leaves need a bit-precise one.",
        "note": "Not covered: parse_expression (winnow combinators; C precedence of the parser is NOT decided), trees containing symbols / SIZEOF / ADDR / ORIGIN / LENGTH leaves (opaque), ALIGN relative to a non-zero location counter. The Kani half runs on a standalone extraction with stand-in context types (Route S) because evaluate_expression::<Elf> on the real crate exhausts 60 GB in CBMC. Trusted: the spec (ldexp.c transcription), assume_specifications for wrapping_neg and u64::from(bool), vstd's specs, the extraction rules.",
    },
    "C02": {
        "category": "proof",
        "design_ref": "DESIGN.md section 6, C02",
        "engine": "verus+kani",
        "technique": "Verus (Z3): representation invariant + pre/postconditions on the mechanically extracted SymbolPrioritySelector::{new,consider,best}, and an inductive lemma over all candidate sequences; Kani replay harness on the real selector (bounded, <= 4 candidates) and a bounded harness (<= 4 candidates) on the real select_symbol loop with symbol_strength / is_in_comdat_group answered from symbolic tables",
        "text": "SELECTOR (proof) AND select_symbol LOOP (bounded) - archive/visibility interplay and undefined-symbol errors are not decided. The three methods are extracted verbatim (rules X1, X2, X7) and given contracts over an abstract view (the sequence of candidates considered so far, in command-line order): new() represents the empty sequence; consider() maintains first-strong / earliest-largest-common / first-weak for EVERY prior sequence; best() returns the ELF rule's choice (strong > largest common > weak, earliest among equals, Undefined never wins). A lemma proved from those contracts alone shows fold(consider).best() is the rule's choice for candidate vectors of any length. This is a data-structure-against-abstract-view property, which needs induction: Verus.",
        "note": "The real select_symbol loop (dynamic definitions never override object definitions, duplicate-strong error with COMDAT and --allow-multiple-definition exemptions, fallback to the first defined shared-library candidate) is checked for up to 4 candidates with the two object-file queries stubbed by symbolic tables - bounded, not counted as proved. SymbolStrength::of is under contract for every symbol-table entry (complete). Not decided: resolution of undefined/weak-undefined references, check_for_undefined. Trusted: is_best() as the transcription of the property's rule; assume_specification for Option::or; extraction rules. The Kani harness is a bounded replay vehicle only and is not counted as proved.",
    },
    "C01": {
        "category": "proof",
        "design_ref": "DESIGN.md section 6, C01",
        "technique": "Kani full-domain harnesses over symbolic r_type: u32 on x86_64::relocation_from_raw / aarch64::relocation_type_from_raw against the psABI's formula per relocation number (operation, paged operands, bias, thunkable), the C12 field lemmas re-run, DynamicRelocationKind number tables on four architectures; plus (under C23's harness) the TLS GOT-slot accessors against the writer",
        "text": "RELOCATION-TABLE CONFORMANCE ONLY - symbol resolution, GOT/PLT/TLS allocation and the computation of S, A, P, G in apply_relocation are not decided, so 'same addresses as GNU ld' is not decided as a whole. For every relocation type number CBMC proves on the real tables that the operation wild selects (RelocationKind, which operands are paged and by 4 KiB, bias, range-extension eligibility) is the psABI's formula for that number, that the bytes written are the psABI's bit slice of that formula's value in the psABI's instruction class (shared with C12), and that every dynamic relocation kind maps to the psABI's number on x86-64, AArch64, RISC-V and LoongArch with an inverse decoder. Loop-free const tables over a symbolic u32: a proof over the whole domain.",
        "note": "Trusted: the hand transcription of x86-64 psABI table 4.9 (+APX rows) and aaelf64 5.7.3-5.7.12 in the ABI's own notation and the reading of each RelocationKind's doc comment as a formula; C12's field oracles. R_X86_64_GOTPC32/64 (GOT+A-P) are accepted as Relative because wild relies on the symbol being _GLOBAL_OFFSET_TABLE_. RISC-V/LoongArch static tables are not covered.",
    },
    "C09": {
        "category": "proof",
        "design_ref": "DESIGN.md section 6, C09",
        "technique": "Kani loop-free full-domain harnesses (contract form) on the real TableWriter::write_address_relocation for four architectures and on its caller write_absolute_relocation, with Layout/ObjectLayout/OutputSections as nondeterministic storage; loader rules of glibc as the oracle",
        "text": "EMISSION SIDE ONLY - that layout reserves an entry in the table the writer picks, and whole-image equality, are not decided. For every place, section address (odd or even), symbol value, addend, load base, symbol class and RELR on/off CBMC proves on the real code: a place that is to hold a link-time address in a PIE/static-PIE/shared output is covered by exactly one relative dynamic relocation - an even RELR address entry equal to the place with the address stored in place, or a RELA {place, R_*_RELATIVE, S+A} - so that what the loader leaves there is (S+A)+base for every base; absolute symbols and places in non-allocated sections get no dynamic relocation and hold S+A; a full table is reported and nothing is written. Loop-free code, all inputs symbolic: a proof.",
        "note": "Trusted: glibc's RELR/RELA relative-relocation rules; R_*_RELATIVE numbers. Assumed: resolution.raw_value != 0 (zero takes the string-merge lookup through Layout); interposable and ifunc arms excluded (stubbed by panicking functions); verify_allocations_message and format stubbed. Not decided: the RELR/RELA choice made at allocation time (by offset parity) versus at write time (by address parity), GOT callers, RELR bitmaps (none emitted).",
    },
    "C23": {
        "category": "proof",
        "design_ref": "DESIGN.md section 6, C23",
        "technique": "Kani full-domain harnesses running the real <Elf as Platform>::allocate_resolution, <Elf as Platform>::create_resolution and TableWriter::process_resolution::<ElfX86_64> against one another for every 16-bit ValueFlags value satisfying stated flag invariants x output kind x RELR on/off (Layout/ElfArgs as nondeterministic storage, tracing stubbed as disabled)",
        "text": "PER-SYMBOL RESOLUTION KERNEL ONLY - relocation-driven allocations, section sizes, symbol/version/dynamic tables and eh_frame accounting are not decided. The internal 'insufficient/excessive allocation' errors are disagreements between three passes; for one symbol's GOT / PLT / dynamic-relocation entries all three are within reach and CBMC proves on the real code, for every flag combination layout can produce, every output kind, with and without packed relative relocations: the GOT and PLT address cursors advance by exactly the bytes reserved, and the writer given tables of exactly the reserved sizes succeeds and leaves .got, .plt.got, .rela.plt, .rela.dyn (general and relative) and .relr.dyn empty; for TLS symbols each TPOFF/DTPMOD/DTPOFF/TLSDESC relocation sits on the slot the Resolution accessors hand to relocation processing. A relation between passes over a finite flag space with symbolic addresses: a proof.",
        "note": "Trusted/assumed: the flag invariants (which ValueFlags combinations layout produces) were derived by reading resolution_flags(), process_relocation and symbol_db.rs and are listed in the evidence - a combination outside them is not checked; undefined weak TLS symbols excluded; x86-64 PLT writer only; GOT 8-aligned, |GOT-PLT| < 2^30. Not decided: process_relocation's RELR/RELA counting by offset parity versus the writer's choice by address parity (a known mismatch for odd section addresses, DESIGN.md section 9).",
    },
    "C08": {
        "category": "other",
        "design_ref": "DESIGN.md section 6, C08",
        "technique": "Kani on the real crate: full-domain harness on create_gnu_hash_layout + GnuHashLayout::allocate for every symbol count (sort stubbed out), bounded harnesses (<= 3 symbols) running the real write_gnu_hash_tables / write_sysv_hash_table on nondeterministic Layout storage and checking glibc's lookup algorithm on the bytes written",
        "text": "BOUNDED for the writers (at most 3 dynamic symbols), complete for the table geometry. For every number of dynamic symbols CBMC proves that .gnu.hash is produced exactly for gnu/both hash styles in dynamic outputs, that the bloom word count is a power of two (glibc masks with count-1 and asserts it), and that the reserved size is exactly header + bloom + buckets + chains. For up to 3 symbols with symbolic hashes, 1-2 buckets, symbolic symbol base and ARBITRARY prior buffer contents, the loader's GNU-hash lookup (bloom bits, bucket, chain walk, stop bits) and SysV lookup run on the bytes the real writers produce find every defined symbol, never leave the table, and the bytes do not depend on the buffer's previous contents. The per-symbol loops need a bound under CBMC; reported as bounded, not as proved.",
        "note": "Assumed: rayon's parallel quicksort sorts (stubbed by a sequential insertion sort over the same comparison closure in the order obligation, by a no-op in the geometry obligation). Trusted: the transcription of glibc's dl-lookup.c. Not covered: .dynsym/.dynstr contents, name comparison on hash collisions, versioned duplicates, more than 3 symbols in the writer obligations.",
    },
    "C11": {
        "category": "other",
        "design_ref": "DESIGN.md section 6, C11",
        "technique": "Kani bounded harnesses on the real thunks::assign_thunk_blocks (<= 5 objects, symbolic sizes / padding / branch range, recording callback) and on the real ThunkLayoutBuilder::compute_non_primary_text_size (built-in sections + 3 regular sections with symbolic EXECINSTR flags, part sizes and primary part; OutputSections as nondeterministic storage)",
        "text": "BLOCK-ASSIGNMENT AND NON-PRIMARY-TEXT-SIZE KERNELS ONLY, BOUNDED - that branches are redirected to a thunk of the assigned block and that thunk code reaches the target is not decided. For every sequence of up to 5 objects in address order with symbolic sizes, padding and branch range, CBMC proves on the real function: every object is assigned exactly once to an existing block, block ids follow address order, every block has exactly one owner, and every object lies within the branch range plus the extents of itself and of the block's owner from the block's position - the strongest bound of that shape (the tighter variants are refuted), which is what the 2 MiB slack subtracted from the hardware range has to cover. The offset added to every primary object's planned position is proved to be the total size of all parts of all executable output sections other than the primary part, whatever their part ids.",
        "note": "The function is generic over an iterator and a callback (out of Verus's reach) and loops over objects (CBMC needs the count bounded). Assumption recorded with the claim: extent(owner) + extent(object) + thunk bytes <= 2 MiB; a single object with more primary text than that gets no guarantee. PLT/IFUNC targets, maybe_get_thunk_for_relocation and write_thunks are not covered.",
    },
    "C15": {
        "category": "other",
        "design_ref": "DESIGN.md section 6, C15",
        "technique": "Kani bounded harnesses (concrete lengths, all bytes symbolic) on the real glob_match::{analyze_glob_pattern, unescape_pattern}, SectionRule::{new, matches}, SectionNameMatcher::prefix_bytes and section_name_prefix_hash against fnmatch restricted to metacharacter-free patterns; and on the real SectionRules::from_rules + lookup for pairs of Exact/Prefix rules, with hashbrown's three entry points replaced by contract stubs and hash_bytes by an uninterpreted function",
        "text": "WILD'S OWN PATTERN CODE AND FIRST-MATCH-WINS FOR EXACT/PREFIX RULES, BOUNDED - wildcard matching itself (glob crate), file-name patterns and KEEP are not decided. For every pattern of 4 or 5 bytes and every name of 4 bytes (2- and 5-byte variants in the thorough tier) CBMC proves: a pattern is treated as a glob exactly when it has an unescaped * ? [ ]; unescaping removes exactly the escaping backslashes; a pattern without unescaped metacharacters becomes an exact rule that matches precisely the names fnmatch matches, keyed by its unescaped text; a rule with at least four literal bytes has a hash key and every name it matches probes that key (rules and names are hashed by exactly their first four bytes). For every pair of Exact/Prefix rules of 4 and 5 symbolic bytes and every name of 5 or 6 bytes, the real from_rules followed by the real lookup returns the outcome of the first rule in script order that matches (else the no-rule outcome), for EVERY hash function - under the assumed hashbrown contract that find returns the earliest-inserted matching entry filed under the probed hash. One known finding (patterns with fewer than 4 literal leading bytes panic or never match) is listed in known_findings.json and reported as KNOWN-FINDING.",
        "note": "Assumed: glob::Pattern implements fnmatch (did not finish under CBMC); hashbrown's insertion-order behaviour for equal hashes (not documented API; wild relies on it). memchr's CPU feature probe stubbed (portable path). Rules with glob matchers or file patterns are outside the first-match obligation.",
    },
    "C22": {
        "category": "other",
        "design_ref": "DESIGN.md section 6, C22",
        "technique": "Kani panic-freedom harnesses (automatic index / overflow / unwrap checks are the obligations) with unconstrained inputs on the real <ElfX86_64 as Arch>::new_relaxation + Relaxation::apply, RelocationKindInfo::write_to_buffer, <SymtabEntry as platform::Symbol>::*, DynamicLayoutStateExt::mark_version_as_needed + elf_writer::copy_symbol_version, the Divide/shift arms of evaluate_expression (extracted, shared with C16) and, bounded, ArchiveIterator over the object crate's archive parser",
        "text": "A LIST OF INPUT-FACING FUNCTIONS, not 'any bytes supplied as objects' - the object crate's ELF parser, the winnow parsers, argument parsing and everything over Layout are not covered. CBMC proves no panic (index, slice, arithmetic overflow, unwrap) in: the x86-64 relaxation matcher and rewriter for every section content and every 64-bit relocation offset, inside or outside the section (complete); write_to_buffer for every value and buffer length (complete); linker-script division and shifts for all operand pairs (complete); every query wild makes on an input symbol-table entry, all 24 bytes symbolic, with COMMON symbols decoded exactly (complete); the validation / use pair for symbol-version indexes of input shared libraries (mark_version_as_needed rejects every index the library does not define; under that precondition copy_symbol_version's unchecked table index cannot panic; bounded to 4 versions; the glue between the two passes is not proved); An obligation for archive member iteration over the object crate's parser (single-member archives of at most 72 bytes) is written but does not finish under CBMC; it is kept outside both tiers and not claimed. Three defects were repaired (relaxation offsets, a truncated archive member shown natively, a COMMON symbol whose aligned size overflows).",
        "note": "Assumed: the relocation type reaching new_relaxation is one the x86-64 table accepts (the caller bails out first); archive bytes start with the magic; format/backtrace/cpuid stubs on error paths. AArch64/RISC-V/LoongArch relaxation code is not covered (AArch64's debug_assert! on instruction bytes is by design).",
    },
    "C30": {
        "category": "other",
        "design_ref": "DESIGN.md section 6, C30",
        "technique": "Kani bounded harnesses on the real elf::init_fini_priority / parse_priority_suffix (names: family + <= 6 bytes, and every name <= 9 bytes) and on the real elf_writer::should_reverse_contents over nondeterministic File/OutputSections storage with a symbolic section name, type and flags (names of 5, 6, 9 bytes in the quick tier; 0, 3, 7, 11, 12 and per-priority secondaries in the thorough tier; memchr replaced by its contract)",
        "text": "PRIORITY KEY AND REVERSAL PREDICATE ONLY, BOUNDED by name length - that the output order follows the key (a std stable sort) and input order within a priority are not decided. CBMC proves the key equals GNU ld's SORT_BY_INIT_PRIORITY key (.init_array.N/.fini_array.N -> N, .ctors.N/.dtors.N -> 65535-N, unsuffixed -> 65535, anything else -> none) and that an input section's words are reversed exactly when it lands in .init_array/.fini_array (directly or through a per-priority secondary) and its NAME starts with .ctors/.dtors, whatever its section type and flags.",
        "note": "Priorities above 65535 are clamped by wild where GNU ld keeps the number (GCC never emits them): order-preserving but not exact, recorded, not a finding. Trusted: the transcription of ld's get_init_priority and of the default script's KEEP(SORT_BY_INIT_PRIORITY ...) lines; memchr::memchr's contract (first index of the needle) in place of its SSE2 implementation.",
    },
    "C36": {
        "category": "other",
        "design_ref": "DESIGN.md section 6, C36",
        "technique": "Kani full-domain harnesses on the real get_property_class of x86-64 and AArch64 (every u32 type); Route S extraction of merge_gnu_property_notes / validate_stack_section with stand-in HashMap/itertools, bounded to one input file with a symbolic shape and to TWO and THREE input files with twenty fixed shapes (every data word symbolic; in five shapes the property type is any classified 32-bit value)",
        "text": "CLASSIFICATION AND EXEC-STACK PREDICATE: PROVED; THE AND/OR FOLD: BOUNDED to at most THREE input files of twenty fixed shapes - four or more inputs, other shapes and the PT_GNU_STACK computation in layout are NOT decided. CBMC proves for every 32-bit property type that x86-64 and AArch64 merge it under the class GNU ld uses (generic AND/OR ranges on every target, x86 AND/OR/OR_AND ranges, AArch64 FEATURE_1_AND) and reject types outside every range; that an executable-stack request is refused exactly without -z execstack; for a single input, the merge result, the -z x86-64-vN OR-in and the unclassified-type error; and, on the extracted merge_gnu_property_notes, for two and three inputs, every 32-bit data word and (in five shapes) every classified 32-bit property type: AND / OR / OR_AND types carried by every file fold with & / | / | and are dropped when GNU ld drops them, a type carried twice by one file and not at all by the other counts as absent from an input (AND and OR_AND dropped, OR kept), a type missing from the middle one of three files, two independent symbolic types in two files, and two types per file in opposite orders (both folds, output sorted).",
        "note": "The merge obligations run on a mechanical extraction with a 40-line association-list stand-in for std HashMap and itertools (listed as assumptions). One defect found and repaired (AArch64 generic ranges).",
    },
    "C24": {
        "category": "other",
        "design_ref": "DESIGN.md section 6, C24",
        "technique": "Kani bounded harnesses (arguments of 1, 2, 3 and, thorough, 5 ASCII bytes, all symbolic) on the argument-emission statement cut out of SaveDirState::write_args on every run (Route S, rule X10) together with save_dir::{write_arg_text, write_copied_file_arg}, against a transcription of POSIX sh token recognition",
        "text": "SHELL QUOTING OF SAVED ARGUMENTS ONLY, BOUNDED by argument length - file copying, response-file contents, linker-script rewriting, thin archives and byte-identical outputs are not decided. For every argument and every copied input file name of 1, 2 or 3 ASCII bytes (5 in the thorough tier) CBMC proves on the extracted code that what wild writes into the run-with script is read back by sh as exactly one literal word with the original bytes - no word splitting, expansion, globbing, command separator or redirection - and that response-file text, which wild reads itself, is written byte for byte. The escaping is byte-local, so short arguments exercise every byte and every adjacent pair; arbitrary lengths are not proved. One defect was found and repaired (only blank, $ and backslash were escaped, copied file names not at all).",
        "note": "Trusted: the hand transcription of POSIX sh quoting/token recognition restricted to backslash escapes and single quotes (every other shell-special byte counts as breaking the word). Not covered: bytes >= 0x80 (written through unchanged), the script's own unquoted $D / $OUT expansions (a save directory whose path contains blanks), empty arguments (std::path::absolute rejects them: the save fails with an error), arguments inside response files (re-read by wild's own tokenizer, which splits on blanks).",
    },
    "C33": {
        "category": "other",
        "design_ref": "DESIGN.md section 6, C33",
        "technique": "Kani bounded harnesses on SymbolDb::{apply_wrapped_symbol_overrides, override_name, get_unversioned} extracted mechanically from symbol_db.rs on every run (Route S) over stand-in types (association-list HashMap, byte-sum hash, plain concatenation for format!), for concrete wrapped names with a symbolic choice of which names are registered",
        "text": "NAME-TABLE KERNEL ONLY, BOUNDED - that references are bound through this table, that definitions and references inside the defining object bypass it, archives and shared libraries, and the undefined-__wrap_S diagnostic are not decided. References are bound by looking names up in SymbolDb's name table; --wrap works by rewriting that table before resolution. For the wrapped names foo (and foo, bar) and every choice of which of S, __wrap_S, __real_S and an unrelated name are registered, CBMC proves on the extracted code that afterwards a lookup of S finds what __wrap_S named, a lookup of __real_S finds what S named BEFORE the call (the original, not the wrapper), and __wrap_S and unrelated names find what they found before; without --wrap nothing changes.",
        "note": "The hash table, the hash function, the arena allocator and format! are stand-ins (listed as assumptions): on the real crate the obligation does not get past CBMC's function-pointer removal. When no __wrap_S is registered wild leaves S alone where GNU ld reports __wrap_S undefined: recorded, not claimed.",
    },
    "C31": {
        "category": "proof",
        "design_ref": "DESIGN.md section 6, C31",
        "technique": "Kani full-domain harnesses on the real elf::convert_elf_visibility and layout::can_export_symbol::<Elf> (GraphResources/SymbolDb as nondeterministic storage) for every st_info / st_other / st_shndx / ValueFlags value; and on the export-gate statements cut out of ObjectLayoutState::activate on every run (Route S, rule X10) together with InputRef::has_archive_semantics and OutputKind::needs_dynsym",
        "text": "DYNAMIC-EXPORT PREDICATE AND EXPORT GATE ONLY - .symtab contents and ordering, values/sizes/types, imports, export requests from shared libraries and --export-list matching are not decided. For every symbol-table entry and every flag value CBMC proves on the real code that a definition is given a .dynsym entry exactly when it is defined, non-local, of default or protected visibility, the canonical definition of its name and not demoted to local, and that hidden and internal symbols are never exported. For every output kind, --export-dynamic setting, dynamic list present or absent and kind of input it proves on the statements extracted from activate that an object of a library excluded by --exclude-libs is never offered for export, and that every other object is offered exactly as GNU ld does (everything non-hidden in a shared object or with --export-dynamic, listed symbols only with just a dynamic list). Loop-free predicates over finite domains: a proof.",
        "note": "Trusted: gABI visibility rules. Assumed: no --export-list (its lookup runs over hashbrown). DOWNGRADE_TO_LOCAL (set by version scripts / PROVIDE_HIDDEN) is an input flag here; should_downgrade_to_local is not checked. The gate's stand-ins answer should_export_dynamic / should_export_all_dynamic_symbols symbolically (the HashSet lookup behind --exclude-libs=name is not executed). Two defects found and repaired (STV_INTERNAL treated as default visibility; --exclude-libs ignored with --export-dynamic / dynamic lists).",
    },
}

# properties whose check has run green on the unchanged tree (only these are claimed)
READY = {"C01", "C02", "C09", "C12", "C13", "C14", "C16", "C17", "C08", "C11", "C15", "C22", "C23", "C24", "C29", "C30", "C31", "C33", "C36"}

PENDING = {
    pid: "check under construction in this session (planned claim, see DESIGN.md section 6); not claimed until its obligations run green"
    for pid in ["C08", "C11", "C15", "C22", "C30", "C31", "C36"]
}

NOT_APPLICABLE = {
    "C03": "archive activation is a fixpoint over concurrent loaders (AtomicTake, rayon scopes, SymbolDb); no single-call contract expresses 'exactly when needed' and neither Kani nor Verus has threads",
    "C04": "an invariant of the whole Layout produced by ~5k lines over types that cannot be constructed symbolically; only its arithmetic leaf (align_modulo) is provable and is proved under C29",
    "C05": "graph closure computed by the parallel work-queue traversal in layout.rs; a whole-history property over GraphResources, not a per-call contract",
    "C06": "quantifies over schedules, thread counts and prior file states; Kani has no threads and Verus would need the code rewritten onto its permission types",
    "C07": "the input-bytes/output-bytes relation spans the concurrent bucket pipeline and the external sharded-offset-map; no function within reach carries the statement",
    "C10": "write_eh_frame_relocations/process_eh_frame_relocations are 200-line generic loops over ObjectLayout/TableWriter/relocation iterators; the only leaf is a call into rayon's sort whose contract would be assumed, not proved",
    "C18": "a statement about file-system state across open/rename/unlink; no verifier here models the OS and stubbing every syscall would verify the stubs",
    "C19": "a statement about file-system state (which paths are created/modified); outside any function contract",
    "C20": "depends on mtime sampling order against an external writer (history property)",
    "C21": "a statement about what another process sees through execve/mmap; OS semantics",
    "C25": "'every file the link read' is a history property of I/O plumbing through lib.rs",
    "C26": "quantifies over schedules (same reason as C06)",
    "C27": "relational property of two whole links",
    "C28": "relational property of whole links under different options",
    "C32": "find_match matches through glob::Pattern (does not finish under CBMC) and a C++ demangler; its exact-name tables could be stubbed as in C15/C33, but the oracle could not be written with confidence: GNU ld's precedence between literal, wildcard and `*` patterns across version nodes (elflink.c, bfd_elf_link_assign_sym_version: `local: *` lowest, later wildcards override earlier ones) differs in corner cases from the lld-style rule wild documents, and a wrong transcription would raise false alarms; the rest of the property is table emission over Layout",
    "C34": "a whole-tool property over parsed binaries and a disassembler (iced-x86)",
    "C35": "pipe/semaphore state across processes and Drop order; OS semantics",
    "C37": "whole-output statement over Layout and input ordering across parallel loaders",
    "C38": "a property of the dynamic loader's behaviour on several modules",
    "C39": "quantifies over thread interleavings of rayon/crossbeam code; neither verifier can",
    "C40": "quantifies over thread interleavings; neither verifier can",
}
