"""Lexer-aware location of Rust items in a source file.

mask(text) returns a same-length string in which the contents of comments, string literals, raw
strings, byte strings and char literals are replaced by spaces, so that braces and keywords found
in the masked text are real tokens.  find_item() uses it to locate `fn`, `struct`, `enum`, `const`,
`impl` items by (enclosing impl header, name) with brace matching.

Nothing here rewrites code: callers only get offsets into the original text.
"""
import re


class LostAnchor(Exception):
    pass


def mask(text):
    out = list(text)
    n = len(text)
    i = 0

    def blank(a, b):
        for k in range(a, b):
            if out[k] != "\n":
                out[k] = " "

    while i < n:
        c = text[i]
        if c == "/" and i + 1 < n and text[i + 1] == "/":
            j = text.find("\n", i)
            if j < 0:
                j = n
            blank(i, j)
            i = j
        elif c == "/" and i + 1 < n and text[i + 1] == "*":
            depth = 1
            j = i + 2
            while j < n and depth:
                if text.startswith("/*", j):
                    depth += 1
                    j += 2
                elif text.startswith("*/", j):
                    depth -= 1
                    j += 2
                else:
                    j += 1
            blank(i, j)
            i = j
        elif c == '"' or (c in "br" and _is_str_start(text, i)):
            j = _skip_string(text, i)
            blank(i, j)
            i = j
        elif c == "'":
            # char literal or lifetime
            m = re.match(r"'(\\.[^']*|[^\\'])'", text[i:i + 12])
            if m:
                blank(i, i + m.end())
                i += m.end()
            else:
                i += 1
        else:
            i += 1
    return "".join(out)


def _is_str_start(text, i):
    # must not be in the middle of an identifier
    if i > 0 and (text[i - 1].isalnum() or text[i - 1] == "_"):
        return False
    return re.match(r'(b?r#*"|b")', text[i:i + 8]) is not None or \
        re.match(r"b'(\\.[^']*|[^\\'])'", text[i:i + 12]) is not None


def _skip_string(text, i):
    n = len(text)
    m = re.match(r'b?r(#*)"', text[i:i + 40])
    if m:
        closer = '"' + m.group(1)
        j = text.find(closer, i + m.end())
        return n if j < 0 else j + len(closer)
    m = re.match(r"b'(\\.[^']*|[^\\'])'", text[i:i + 12])
    if m:
        return i + m.end()
    j = i + (2 if text[i] == "b" else 1)
    while j < n:
        if text[j] == "\\":
            j += 2
        elif text[j] == '"':
            return j + 1
        else:
            j += 1
    return n


def match_brace(masked, open_idx):
    assert masked[open_idx] == "{"
    depth = 0
    for k in range(open_idx, len(masked)):
        ch = masked[k]
        if ch == "{":
            depth += 1
        elif ch == "}":
            depth -= 1
            if depth == 0:
                return k
    raise LostAnchor("unbalanced braces")


def _norm(s):
    return re.sub(r"\s+", " ", s).strip()


def impl_blocks(masked):
    """Yield (header_normalised, header_start, open_brace, close_brace)."""
    for m in re.finditer(r"(?m)^[ \t]*(?:unsafe\s+)?impl\b[^{;]*\{", masked):
        ob = m.end() - 1
        hdr = _norm(masked[m.start():ob])
        yield hdr, m.start(), ob, match_brace(masked, ob)


def _depth_at(masked, start, pos):
    d = 0
    for ch in masked[start:pos]:
        if ch == "{":
            d += 1
        elif ch == "}":
            d -= 1
    return d


def line_start(text, pos):
    return text.rfind("\n", 0, pos) + 1


def find_fn(text, impl_hdr, name, masked=None):
    """Return dict(start, sig_start, body_open, body_close, end) for fn `name`.

    impl_hdr: normalised header text of the enclosing impl block ('' for a free function at module
    level or nested in an inline `mod`).  start = beginning of the line holding the `fn` keyword
    (after attributes/doc comments), item_start = beginning of the first attribute / doc line.
    """
    if masked is None:
        masked = mask(text)
    cands = []
    if impl_hdr:
        want = _norm(impl_hdr)
        blocks = [b for b in impl_blocks(masked) if b[0] == want]
        if not blocks:
            raise LostAnchor(f"impl header not found: {want!r}")
        for hdr, hs, ob, cb in blocks:
            for m in re.finditer(r"\bfn\s+" + re.escape(name) + r"\b", masked[ob:cb]):
                p = ob + m.start()
                if _depth_at(masked, ob, p) == 1:
                    cands.append(p)
    else:
        spans = [(ob, cb) for _, _, ob, cb in impl_blocks(masked)]
        spans += [(m.end() - 1, match_brace(masked, m.end() - 1))
                  for m in re.finditer(r"\btrait\b[^{;]*\{", masked)]
        for m in re.finditer(r"\bfn\s+" + re.escape(name) + r"\b", masked):
            p = m.start()
            if any(a < p < b for a, b in spans):
                continue
            # must be at item level: not nested in another fn body. We accept depth 0 or inside
            # `mod x {` blocks only.
            if _enclosing_is_fn(masked, p):
                continue
            cands.append(p)
    if len(cands) != 1:
        raise LostAnchor(f"fn {name!r} in {impl_hdr!r}: {len(cands)} candidates")
    p = cands[0]
    # signature ends at the first `{` at paren/bracket depth 0 after p (or `;`)
    k = p
    par = 0
    while k < len(masked):
        ch = masked[k]
        if ch in "([":
            par += 1
        elif ch in ")]":
            par -= 1
        elif ch == "{" and par == 0:
            break
        elif ch == ";" and par == 0:
            raise LostAnchor(f"fn {name} has no body")
        k += 1
    body_open = k
    body_close = match_brace(masked, body_open)
    ls = line_start(text, p)
    # walk back over attribute and doc-comment lines
    item_start = ls
    while item_start > 0:
        prev_ls = line_start(text, item_start - 1)
        prev = text[prev_ls:item_start - 1].strip()
        if prev.startswith("#[") or prev.startswith("///") or prev.startswith("#!["):
            item_start = prev_ls
        else:
            break
    return dict(start=ls, item_start=item_start, fn_kw=p, body_open=body_open,
                body_close=body_close, end=body_close + 1)


def _enclosing_is_fn(masked, p):
    """True if position p is nested inside a fn body (closure/local fn)."""
    # find innermost enclosing brace block's header
    depth = 0
    k = p - 1
    while k >= 0:
        ch = masked[k]
        if ch == "}":
            depth += 1
        elif ch == "{":
            if depth == 0:
                # header text preceding this brace back to previous ; or } or {
                h = k - 1
                while h >= 0 and masked[h] not in ";{}":
                    h -= 1
                hdr = masked[h + 1:k]
                if re.search(r"\bmod\s+\w+\s*$", hdr):
                    return _enclosing_is_fn(masked, h + 1) if h >= 0 else False
                return True
            depth -= 1
        k -= 1
    return False


def find_type_item(text, kind, name, masked=None):
    """Locate `struct|enum|const|static|type|trait NAME` at any depth; returns (item_start, end)."""
    if masked is None:
        masked = mask(text)
    ms = list(re.finditer(r"\b" + kind + r"\s+" + re.escape(name) + r"\b", masked))
    if len(ms) != 1:
        raise LostAnchor(f"{kind} {name}: {len(ms)} candidates")
    p = ms[0].start()
    k = p
    par = 0
    while k < len(masked):
        ch = masked[k]
        if ch in "([":
            par += 1
        elif ch in ")]":
            par -= 1
        elif ch == "{" and par == 0:
            end = match_brace(masked, k) + 1
            # const X: T = Foo { .. };
            if kind in ("const", "static"):
                e2 = masked.find(";", end)
                end = e2 + 1
            break
        elif ch == ";" and par == 0:
            end = k + 1
            break
        k += 1
    ls = line_start(text, p)
    item_start = ls
    while item_start > 0:
        prev_ls = line_start(text, item_start - 1)
        prev = text[prev_ls:item_start - 1].strip()
        if prev.startswith("#[") or prev.startswith("///"):
            item_start = prev_ls
        else:
            break
    return dict(start=ls, item_start=item_start, end=end)
