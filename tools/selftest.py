#!/usr/bin/env python3
"""setup_cmd: byte-compile the tools and check that the verifiers are present (offline)."""
import os, subprocess, sys, py_compile
HERE = os.path.dirname(os.path.abspath(__file__))
ok = True
for fn in os.listdir(HERE):
    if fn.endswith(".py"):
        py_compile.compile(os.path.join(HERE, fn), doraise=True)
for cmd in (["cargo", "kani", "--version"], ["verus", "--version"], ["rsync", "--version"]):
    try:
        r = subprocess.run(cmd, capture_output=True, text=True, timeout=120)
        print(cmd[0], cmd[1] if len(cmd) > 2 else "", (r.stdout or r.stderr).strip().split("\n")[0])
        ok &= r.returncode == 0
    except Exception as e:
        print("missing:", cmd, e); ok = False
os.makedirs(os.path.join(os.path.dirname(HERE), "evidence", "replay"), exist_ok=True)
sys.exit(0 if ok else 1)
