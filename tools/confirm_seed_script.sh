#!/bin/sh
# tools/confirm_seed_script.sh <worktree>: confirm a script-style seed (SEED/patch.diff + SEED/demo.sh):
# (1) suite with the patch == baseline, (2) demo fails with the patch, (3) demo passes without it.
WT=$1
cd "$WT" || exit 2
export CARGO_TARGET_DIR="$WT/target"
echo "== suite with patch"
cargo nextest run --workspace --no-fail-fast --tool-config-file pb:/w/lib/nextest.toml --profile pb --test-threads 8 --offline > /tmp/confirm.$$.log 2>&1
grep -E "Summary" /tmp/confirm.$$.log
grep -E "^ +FAIL" /tmp/confirm.$$.log | sed -E 's/^ +FAIL \[[^]]*\] \([^)]*\) //' | sort -u
echo "== demo WITH patch (expect non-zero)"
sh SEED/demo.sh "$WT" > /tmp/confirm.$$.with 2>&1; echo "exit=$?"; tail -5 /tmp/confirm.$$.with
git apply -R SEED/patch.diff || { echo "cannot revert patch"; exit 2; }
echo "== demo WITHOUT patch (expect 0)"
sh SEED/demo.sh "$WT" > /tmp/confirm.$$.without 2>&1; echo "exit=$?"; tail -5 /tmp/confirm.$$.without
git apply SEED/patch.diff
echo "== restored: $(git status --short | tr '\n' ' ')"
rm -f /tmp/confirm.$$.*
