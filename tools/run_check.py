#!/usr/bin/env python3
"""Decide one property: weave contracts into a scratch copy of /repo's working tree, run every
obligation of the tier (Kani via CBMC, Verus via Z3), classify, replay violations, write evidence.

exit 0: every obligation discharged (or a listed known finding)
exit 1: an unlisted violation was printed ("VIOLATION property=<id> replay=<path>")
exit 2: undecided (lost anchor, compile error of the woven copy, timeout, vacuity guard failed)
"""
import argparse
import json
import os
import re
import shutil
import subprocess
import sys
import time
import tomllib

HERE = os.path.dirname(os.path.abspath(__file__))
sys.path.insert(0, HERE)
import rustscan  # noqa: E402
import weave  # noqa: E402

VERIF = os.path.dirname(HERE)
EVID = os.path.join(VERIF, "evidence")
# A run against anything other than /repo (tools/try_seed.sh: a scratch copy with a seeded change)
# must not touch the committed evidence: its logs and replay files go to scratch space.
if os.environ.get("VERIF_REPO", "/repo") != "/repo":
    EVID = os.path.join(os.environ.get("VERIF_SCRATCH", "/var/tmp"), "wild-verif-seed-evidence")
UNDECIDED_PATTERNS = [
    r"unwinding assertion", r"is not currently supported by Kani", r"unsupported",
    r"recursion unwinding", r"Unsupported", r"unreachable code: unsupported",
]


def log(*a):
    print(*a, flush=True)


def load_cfg(prop):
    cdir = os.path.join(VERIF, "contracts", prop)
    cfg = tomllib.load(open(os.path.join(cdir, "check.toml"), "rb"))
    # [[harness_matrix]]: template "c13_a64_{k}_{o}" expanded over k (list) x o (table name->statement)
    hs = list(cfg.get("harness", []))
    for mx in cfg.get("harness_matrix", []):
        for k in mx["k"]:
            for o, stmt in mx["o"].items():
                name = mx["template"].format(k=k, o=o)
                if name in mx.get("skip", []):
                    continue
                h = {kk: vv for kk, vv in mx.items() if kk not in ("template", "k", "o", "skip", "overrides")}
                h["name"] = name
                h["obligation"] = stmt.format(k=k)
                h["function"] = mx.get("function", "").format(k=k)
                h.update(mx.get("overrides", {}).get(name, {}))
                hs.append(h)
    cfg["harness"] = hs
    return cfg, cdir


def sh(cmd, cwd, timeout, logf, env=None):
    t0 = time.time()
    e = dict(os.environ)
    e["CARGO_NET_OFFLINE"] = "true"
    e.pop("RUSTUP_TOOLCHAIN", None) if env and env.get("_drop_toolchain") else None
    if env:
        e.update({k: v for k, v in env.items() if not k.startswith("_")})
    with open(logf, "ab") as f:
        f.write(("\n$ " + " ".join(cmd) + "\n").encode())
        f.flush()
        try:
            p = subprocess.run(cmd, cwd=cwd, stdout=f, stderr=subprocess.STDOUT, timeout=timeout,
                               env=e)
            rc = p.returncode
        except subprocess.TimeoutExpired:
            rc = 124
    return rc, time.time() - t0


# --------------------------------------------------------------------------------------------
# Kani
# --------------------------------------------------------------------------------------------

def parse_result_file(path):
    txt = open(path, errors="replace").read()
    res = {"status": "UNKNOWN", "checks": 0, "failed": [], "time_s": None, "covers": []}
    m = re.search(r"VERIFICATION:- (SUCCESSFUL|FAILED)", txt)
    if m:
        res["status"] = m.group(1)
    m = re.search(r"Verification Time: ([0-9.]+)s", txt)
    if m:
        res["time_s"] = float(m.group(1))
    for cm in re.finditer(
            r"Check (\d+): ([^\n]+)\n\s*- Status: (\w+)\n\s*- Description: \"((?:[^\"\\]|\\.|\"(?!\n))*)\"\n(?:\s*- Location: ([^\n]*)\n)?",
            txt):
        res["checks"] += 1
        st = cm.group(3)
        ent = {"check": cm.group(2), "status": st, "description": cm.group(4),
               "location": (cm.group(5) or "").strip()}
        if st == "FAILURE" or st == "UNDETERMINED":
            res["failed"].append(ent)
        if ".cover." in cm.group(2):
            res["covers"].append(ent)
    # a verifier that gave up is not a verdict
    if not res["failed"] and res["status"] != "SUCCESSFUL":
        if "CBMC timed out" in txt:
            res["status"] = "TIMEOUT"
        elif "run out of memory" in txt:
            res["status"] = "OUT_OF_MEMORY"
        elif "CBMC failed" in txt:
            res["status"] = "VERIFIER_FAILED"
    return res, txt


def classify_failed(failed):
    """'undecided' if every failing check is a tool limit, else 'violation'."""
    real = []
    for f in failed:
        d = f["description"] + " " + f["check"]
        if f["status"] == "UNDETERMINED":
            continue
        if any(re.search(p, d) for p in UNDECIDED_PATTERNS):
            continue
        real.append(f)
    return ("violation", real) if real else ("undecided", failed)


def kani_base_cmd(cfg, pkg, cdir):
    cmd = ["cargo", "kani", "-p", pkg, "-Z", "function-contracts", "-Z", "stubbing",
           "-Z", "unstable-options"]
    for f in cfg.get("kani_flags", []):
        cmd.append(f)
    if cfg.get("features"):
        cmd += ["--features", ",".join(cfg["features"])]
    if cfg.get("c_lib"):
        cmd += ["-Z", "c-ffi", "--c-lib", os.path.join(cdir, cfg["c_lib"])]
    return cmd


def run_kani(scratch, cfg, cdir, harnesses, logf, jobs):
    """Run all harnesses (one cargo kani per package). Returns name -> result dict."""
    out = {}
    by_pkg = {}
    for h in harnesses:
        by_pkg.setdefault(h.get("package", cfg["package"]), []).append(h)
    stubs_seen = []
    for pkg, hs in by_pkg.items():
        rdir = os.path.join(scratch, "result_output_dir")
        shutil.rmtree(rdir, ignore_errors=True)
        cmd = kani_base_cmd(cfg, pkg, cdir)
        tmo = max(int(h.get("timeout", cfg.get("harness_timeout", 600))) for h in hs)
        cmd += ["-j", str(jobs), "--output-format", "terse", "--output-into-files",
                "--harness-timeout", f"{tmo}s", "--exact"]
        for h in hs:
            cmd += ["--harness", h["_full"]]
        overall = int(cfg.get("build_timeout", 900)) + tmo * (1 + len(hs) // max(1, jobs))
        rc, dt = sh(cmd, scratch, overall, logf)
        logtxt = open(logf, errors="replace").read()
        stubs_seen += re.findall(r"- Stub: ([^\n]+)", logtxt)
        compile_failed = bool(re.search(r"error: could not compile|error\[E\d+\]", logtxt)) and \
            not os.path.isdir(rdir)
        for h in hs:
            r = {"status": "UNKNOWN", "checks": 0, "failed": [], "time_s": None, "covers": []}
            p = os.path.join(rdir, h["_full"])
            if os.path.exists(p):
                r, txt = parse_result_file(p)
                r["_raw_tail"] = txt[-3000:]
            elif compile_failed:
                r["status"] = "COMPILE_ERROR"
            elif rc == 124:
                r["status"] = "TIMEOUT"
            out[h["name"]] = r
        out.setdefault("_meta", {})[pkg] = {"rc": rc, "wall_s": round(dt, 1),
                                            "cmd": " ".join(cmd[:12]) + " ..."}
    out.setdefault("_meta", {})["stubs"] = sorted(set(stubs_seen))
    return out


def list_harness_fullnames(scratch, cfg, cdir, pkgs, logf):
    """Map short harness name -> fully qualified name using the harness module paths."""
    # Derived statically: module path of the target file + woven module name + fn name.
    names = {}
    default_prefix = None
    for mod in cfg.get("module", []):
        rel = mod["file"]
        parts = rel.split("/")
        crate_dir, src = parts[0], parts[2:]
        modpath = []
        for i, s in enumerate(src):
            s = s[:-3] if s.endswith(".rs") else s
            if s in ("lib", "mod", "main"):
                continue
            modpath.append(s)
        name = "__verif_" + re.sub(r"\W", "_", os.path.splitext(os.path.basename(mod["source"]))[0])
        if default_prefix is None:
            default_prefix = "::".join(modpath + [name])
        text = open(os.path.join(cdir, mod["source"])).read()
        masked = rustscan.mask(text)
        for m in re.finditer(r"#\[kani::proof(?:_for_contract\([^)]*\))?\]", masked):
            fm = re.compile(r"\bfn\s+(\w+)").search(masked, m.end())
            if fm:
                names[fm.group(1)] = "::".join(modpath + [name, fm.group(1)])
    # macro-generated harnesses (paste!) are not visible to the scanner: they live in the module
    # named by the harness's `module` key, or in the first module
    for h in cfg.get("harness", []):
        if h["name"] not in names:
            pref = default_prefix
            if h.get("module"):
                for mod in cfg.get("module", []):
                    if os.path.splitext(os.path.basename(mod["source"]))[0] == h["module"]:
                        parts = mod["file"].split("/")[2:]
                        mp = [x[:-3] if x.endswith(".rs") else x for x in parts]
                        mp = [x for x in mp if x not in ("lib", "mod", "main")]
                        pref = "::".join(mp + ["__verif_" + re.sub(r"\W", "_", h["module"])])
            if pref:
                names[h["name"]] = pref + "::" + h["name"]
    return names


# --------------------------------------------------------------------------------------------
# replay
# --------------------------------------------------------------------------------------------

def try_replay(scratch, cfg, cdir, h, fullnames, logf):
    """Obtain a concrete counterexample from Kani and run it natively against the real code."""
    info = {"replayed_natively": False, "concrete_playback_test": None, "notes": []}
    rname = h.get("replay", h["name"] if h["kind"] != "contract" else None)
    if not rname:
        info["notes"].append("contract harness without an explicit-assertion twin; no native replay")
        return info
    full = fullnames.get(rname)
    if not full:
        info["notes"].append(f"replay harness {rname} not found")
        return info
    pkg = h.get("package", cfg["package"])
    plog = logf + ".playback"
    cmd = kani_base_cmd(cfg, pkg, cdir) + ["-Z", "concrete-playback", "--concrete-playback=print",
                                           "--exact", "--harness", full]
    off = os.path.getsize(plog) if os.path.exists(plog) else 0
    rc, dt = sh(cmd, scratch, int(cfg.get("replay_timeout", 900)), plog)
    txt = open(plog, errors="replace").read()[off:]
    m = re.search(r"```\n(.*?#\[test\]\nfn (kani_concrete_playback_\w+)\(\).*?\n\})\n```", txt, re.S)
    if not m:
        info["notes"].append("Kani produced no concrete playback test")
        return info
    test_code, test_name = m.group(1), m.group(2)
    test_code = test_code[test_code.index("#[test]"):]  # drop Kani's (multi-line) doc comment
    info["concrete_playback_test"] = test_code
    info["concrete_values"] = re.findall(r"// ([^\n]*)\n\s*vec!\[([^\]]*)\]", test_code)
    # locate the module file that holds the replay harness and append the test
    target = None
    for mod in cfg.get("module", []):
        name = "__verif_" + re.sub(r"\W", "_", os.path.splitext(os.path.basename(mod["source"]))[0])
        p = os.path.join(scratch, os.path.dirname(mod["file"]), name + ".rs")
        if os.path.exists(p) and re.search(r"\bfn\s+" + re.escape(rname) + r"\b", open(p).read()):
            target = p
    if not target and cfg.get("module"):
        # macro-generated harness: the module named by the harness's `module` key, else the first
        # module (fullnames() applies the same rule)
        mod = cfg["module"][0]
        for m_ in cfg["module"]:
            if h.get("module") and os.path.splitext(os.path.basename(m_["source"]))[0] == h["module"]:
                mod = m_
        name = "__verif_" + re.sub(r"\W", "_", os.path.splitext(os.path.basename(mod["source"]))[0])
        target = os.path.join(scratch, os.path.dirname(mod["file"]), name + ".rs")
    if not target:
        info["notes"].append("could not locate harness module for playback")
        return info
    with open(target, "a") as f:
        f.write("\n" + test_code + "\n")
    cmd = ["cargo", "kani", "playback", "-Z", "concrete-playback", "-p", pkg]
    if cfg.get("features"):
        cmd += ["--features", ",".join(cfg["features"])]
    cmd += ["--", test_name]
    nlog = logf + ".native"
    off = os.path.getsize(nlog) if os.path.exists(nlog) else 0
    rc, dt = sh(cmd, scratch, int(cfg.get("replay_timeout", 900)), nlog)
    ntxt = open(nlog, errors="replace").read()[off:]
    m2 = re.search(r"test \S*" + re.escape(test_name) + r" \.\.\. (\w+)", ntxt)
    info["native_result"] = m2.group(1) if m2 else "not-run"
    pm = re.search(r"(thread '[^']*' \(?\d*\)? ?panicked at [^\n]*\n[^\n]*)", ntxt)
    if pm:
        info["native_panic"] = pm.group(1)[:600]
    info["replayed_natively"] = bool(m2 and m2.group(1) == "FAILED")
    return info


# --------------------------------------------------------------------------------------------
# assumption scan
# --------------------------------------------------------------------------------------------

SCAN = [r"kani::assume\s*\(", r"kani::stub\s*\(", r"stub_verified\s*\(", r"external_body",
        r"assume_specification", r"\badmit\s*\(", r"\bassume\s*\(", r"unsafe\s*\{"]


def scan_assumptions(cdir, cfg):
    found = []
    files = []
    for root, _, fns in os.walk(cdir):
        for fn in fns:
            if fn.endswith((".rs", ".c", ".toml")):
                files.append(os.path.join(root, fn))
    for inc in [i for m in cfg.get("module", []) for i in m.get("include", [])]:
        files.append(os.path.normpath(os.path.join(cdir, inc)))
    for p in sorted(set(files)):
        try:
            lines = open(p).read().split("\n")
        except OSError:
            continue
        for i, ln in enumerate(lines, 1):
            s = ln.strip()
            if s.startswith("//") or s.startswith("#"):
                continue
            for pat in SCAN:
                if re.search(pat, ln):
                    found.append(f"{os.path.relpath(p, VERIF)}:{i}: {s[:160]}")
                    break
    return found


# --------------------------------------------------------------------------------------------
# main
# --------------------------------------------------------------------------------------------

class Slot:
    """Cross-process limiter: checks started at the same time (e.g. every quick command at once)
    would each start several multi-GB CBMC processes and run the machine out of memory, which
    shows up as undecided obligations.  At most VERIF_SLOTS checks (default: one per 12 GB of
    RAM, 2..6) run their solvers concurrently; the others wait (at most VERIF_SLOT_WAIT seconds,
    then proceed anyway)."""

    def __init__(self):
        self.fd = None
        self.waited = 0.0

    def acquire(self):
        import fcntl
        try:
            mem_kb = int(re.search(r"MemTotal:\s+(\d+)", open("/proc/meminfo").read()).group(1))
        except Exception:
            mem_kb = 32 * 1024 * 1024
        n = int(os.environ.get("VERIF_SLOTS", "0") or 0) or max(2, min(6, mem_kb // (12 * 1024 * 1024)))
        limit = float(os.environ.get("VERIF_SLOT_WAIT", "2400"))
        d = os.path.join(weave.scratch_root(), "wild-verif.slots")
        os.makedirs(d, exist_ok=True)
        t0 = time.time()
        while True:
            for i in range(n):
                fd = os.open(os.path.join(d, f"slot-{i}.lock"), os.O_CREAT | os.O_RDWR, 0o666)
                try:
                    fcntl.flock(fd, fcntl.LOCK_EX | fcntl.LOCK_NB)
                    self.fd = fd
                    self.waited = time.time() - t0
                    return
                except OSError:
                    os.close(fd)
            if time.time() - t0 > limit:
                self.waited = time.time() - t0
                return
            time.sleep(3)

    def release(self):
        if self.fd is not None:
            os.close(self.fd)
            self.fd = None


def load_known():
    p = os.path.join(VERIF, "known_findings.json")
    if not os.path.exists(p):
        return {"findings": [], "fixed": []}
    return json.load(open(p))


def main():
    ap = argparse.ArgumentParser()
    ap.add_argument("prop")
    ap.add_argument("--tier", default=os.environ.get("VERIF_TIER", "quick"))
    ap.add_argument("--replay")
    ap.add_argument("--keep", action="store_true")
    ap.add_argument("--only", help="comma-separated harness names (debugging)")
    ap.add_argument("--no-evidence", action="store_true")
    ap.add_argument("--jobs", type=int, default=int(os.environ.get("VERIF_JOBS", "0")))
    args = ap.parse_args()
    prop = args.prop
    # "experimental": obligations that are written down but do not finish under CBMC (kept for the
    # record and for --only runs); they belong to neither registered tier, so that an unchanged
    # tree never makes a registered command exit non-zero because the verifier gave up.
    tier = args.tier if args.tier in ("quick", "thorough", "experimental") else "quick"
    if tier == "experimental":
        args.no_evidence = True  # the evidence schema knows the two registered tiers only
    seed = int(os.environ.get("VERIF_SEED", "0") or 0)
    t0 = time.time()
    cfg, cdir = load_cfg(prop)
    known = load_known()
    os.makedirs(EVID, exist_ok=True)
    os.makedirs(os.path.join(EVID, "replay"), exist_ok=True)
    os.makedirs(os.path.join(EVID, "logs"), exist_ok=True)
    logf = os.path.join(EVID, "logs", f"{prop}-{tier}.log")
    open(logf, "w").close()
    for suffix in (".playback", ".native"):
        if os.path.exists(logf + suffix):
            os.remove(logf + suffix)

    if args.replay:
        return do_replay_file(args.replay, cfg, cdir, logf)

    def in_tier(h):
        t = h.get("tier", "quick")
        if tier == "experimental":
            return True
        if t == "experimental":
            return False
        return tier == "thorough" or t == "quick"
    harnesses = [dict(h) for h in cfg.get("harness", []) if in_tier(h)]
    if args.only:
        only = set(args.only.split(","))
        harnesses = [dict(h) for h in cfg.get("harness", []) if h["name"] in only]
    jobs = args.jobs or int(cfg.get("jobs", 8))

    undecided = []
    violations = []
    known_lines = []
    scratch = weave.make_scratch(prop)
    weave_summary = {}
    verus_results = []
    results = {}
    isolated_module = {}
    slot = Slot()
    slot.acquire()
    if slot.waited > 5:
        log(f"NOTE property={prop}: waited {slot.waited:.0f}s for a solver slot")
    try:
        try:
            weave.sync(scratch)
            weave_summary = weave.weave(scratch, cfg, cdir)
            weave_summary["diff_check"] = weave.verify_weave(scratch)
        except (rustscan.LostAnchor, weave.WeaveError) as e:
            log(f"UNDECIDED property={prop}: lost anchor / weave error: {e}")
            undecided.append({"obligation": "weave", "reason": str(e)})
            harnesses = []
        fullnames = list_harness_fullnames(scratch, cfg, cdir, None, logf) if harnesses else {}
        for h in harnesses:
            if h["name"] not in fullnames:
                undecided.append({"obligation": h["name"], "reason": "harness not found in module"})
            h["_full"] = fullnames.get(h["name"], h["name"])
        if harnesses:
            results = run_kani(scratch, cfg, cdir, harnesses, logf, jobs)
            # ---- module isolation: when the woven crate does not compile (e.g. the signature of a
            # function under contract changed), re-run each harness module on its own so that the
            # modules that still compile are decided; the others stay undecided (exit 2).
            mods = [os.path.splitext(os.path.basename(m["source"]))[0] for m in cfg.get("module", [])
                    if not m.get("shared")]
            if len(mods) > 1 and any(results.get(h["name"], {}).get("status") == "COMPILE_ERROR"
                                     for h in harnesses):
                def module_of(h):
                    full = h.get("_full", "")
                    for mname in mods:
                        if "::__verif_" + re.sub(r"\W", "_", mname) + "::" in full:
                            return mname
                    return None
                isolated = {}
                for mname in mods:
                    hs = [h for h in harnesses if module_of(h) == mname]
                    if not hs:
                        continue
                    log(f"NOTE property={prop}: woven crate does not compile; isolating harness module {mname}")
                    try:
                        weave.sync(scratch)
                        weave.weave(scratch, cfg, cdir, only_modules={mname})
                    except (rustscan.LostAnchor, weave.WeaveError) as e:
                        continue
                    r2 = run_kani(scratch, cfg, cdir, hs, logf, jobs)
                    for h in hs:
                        isolated[h["name"]] = r2.get(h["name"], results.get(h["name"]))
                        isolated_module[h["name"]] = mname
                    for k, v in r2.get("_meta", {}).items():
                        if k == "stubs":
                            results.setdefault("_meta", {}).setdefault("stubs", [])
                            results["_meta"]["stubs"] = sorted(set(results["_meta"]["stubs"]) | set(v))
                        else:
                            results.setdefault("_meta", {})[f"{k} (isolated {mname})"] = v
                results.update(isolated)
                weave_summary["module_isolation"] = sorted(isolated)

        # ---- Verus route ----
        if cfg.get("verus") and not any(u["obligation"] == "weave" for u in undecided):
            import extract  # noqa: E402
            for recipe in cfg["verus"]:
                if tier != "thorough" and recipe.get("tier", "quick") != "quick":
                    continue
                vr = extract.run_recipe(recipe, cdir, scratch, logf)
                verus_results.append(vr)

        # ---- Route S (standalone extraction under Kani) ----
        if cfg.get("standalone") and not any(u["obligation"] == "weave" for u in undecided):
            import extract  # noqa: E402
            for recipe in cfg["standalone"]:
                sr = extract.run_standalone(recipe, cfg, cdir, scratch, logf, parse_result_file,
                                            classify_failed, tier)
                verus_results.append(sr)

        # ---- Route S recipes shared with another property (e.g. C22 re-runs C16's evaluator
        # harnesses for panic-freedom): [[import_standalone]] from = "C16", name = "..", harnesses = [..]
        if cfg.get("import_standalone") and not any(u["obligation"] == "weave" for u in undecided):
            import extract  # noqa: E402
            for imp in cfg["import_standalone"]:
                ocfg, ocdir = load_cfg(imp["from"])
                rec = next((r for r in ocfg.get("standalone", []) if r["name"] == imp["name"]), None)
                if rec is None:
                    undecided.append({"obligation": f"import:{imp['from']}:{imp['name']}", "reason": "recipe not found"})
                    continue
                rec = dict(rec)
                want = set(imp.get("harnesses", []))
                if want:
                    rec["harness"] = [dict(h, tier="quick") for h in rec.get("harness", []) if h["name"] in want]
                sr = extract.run_standalone(rec, ocfg, ocdir, scratch, logf, parse_result_file,
                                            classify_failed, tier)
                verus_results.append(sr)

        # ---- classify ----
        obligations = []
        for h in harnesses:
            r = results.get(h["name"], {"status": "UNKNOWN", "failed": [], "checks": 0})
            ent = {"obligation": h["name"], "kind": h["kind"], "function": h.get("function", ""),
                   "statement": h.get("obligation", ""), "backend": "Kani 0.68 / CBMC 6.11 / CaDiCaL",
                   "solver_s": r.get("time_s"), "checks": r.get("checks", 0), "result": None}
            if h.get("bound"):
                ent["bound"] = h["bound"]
            st = r["status"]
            if h["kind"] == "canary":
                if st == "FAILED":
                    cls, real = classify_failed(r["failed"])
                    ent["result"] = "canary-failed-as-required" if cls == "violation" else "undecided"
                    if cls != "violation":
                        undecided.append({"obligation": h["name"], "reason": "canary failed only on tool limits"})
                elif st == "SUCCESSFUL":
                    ent["result"] = "VACUOUS"
                    undecided.append({"obligation": h["name"],
                                      "reason": "vacuity canary verified: precondition unsatisfiable or call unreachable"})
                else:
                    ent["result"] = "undecided"
                    undecided.append({"obligation": h["name"], "reason": f"canary status {st}"})
            elif st == "SUCCESSFUL":
                ent["result"] = "discharged"
                if h["kind"] == "known_finding":
                    log(f"NOTE property={prop} known finding {h.get('finding')} no longer reproduces "
                        f"(obligation {h['name']} verified)")
                    ent["result"] = "known-finding-not-reproduced"
            elif st == "FAILED":
                cls, real = classify_failed(r["failed"])
                if cls == "undecided":
                    ent["result"] = "undecided"
                    undecided.append({"obligation": h["name"],
                                      "reason": "; ".join(f["description"][:100] for f in r["failed"][:3])})
                elif h["kind"] == "known_finding":
                    kf = next((k for k in known["findings"]
                               if k["property"] == prop and k["id"] == h.get("finding")), None)
                    if kf:
                        ent["result"] = "known-finding"
                        known_lines.append(f"KNOWN-FINDING: property={prop} {kf['what']}")
                    else:
                        ent["result"] = "VIOLATION"
                        violations.append((h, r, real))
                else:
                    ent["result"] = "VIOLATION"
                    violations.append((h, r, real))
                ent["failed_checks"] = [{"description": f["description"][:300], "location": f["location"]}
                                        for f in real[:6]]
            else:
                ent["result"] = "undecided"
                undecided.append({"obligation": h["name"], "reason": f"status {st}"})
            obligations.append(ent)

        for vr in verus_results:
            for ob in vr["obligations"]:
                obligations.append(ob)
                if ob["result"] == "VIOLATION":
                    violations.append(({"name": ob["obligation"], "kind": "verus",
                                        "obligation": ob.get("statement", ""),
                                        "replay": ob.get("replay")}, {"failed": [], "_raw_tail": ob.get("verifier_output", "")},
                                       (ob.get("failed_checks") or
                                        [{"description": ob.get("verifier_output", "")[:600], "location": ob.get("where", "")}])))
                elif ob["result"] == "undecided":
                    undecided.append({"obligation": ob["obligation"], "reason": ob.get("reason", "verus undecided")})
                elif ob["result"] == "VACUOUS":
                    undecided.append({"obligation": ob["obligation"], "reason": "vacuity guard verified"})

        # ---- violations: replay + report ----
        viol_out = []
        replayed_harnesses = {}
        # replay the cheapest failing obligations first (row harnesses before whole-table ones)
        violations.sort(key=lambda t: (t[1].get("time_s") or 1e9))
        for h, r, real in violations:
            rp = os.path.join(EVID, "replay", f"{prop}-{h['name']}.json")
            info = {"replayed_natively": False, "notes": []}
            kh = None
            rkey = h.get("replay", h["name"])
            if rkey in replayed_harnesses:
                info = replayed_harnesses[rkey]
            elif len(replayed_harnesses) >= int(cfg.get("max_replays", 2)):
                info = {"replayed_natively": False, "notes": ["replay budget exhausted (max_replays)"]}
            elif h["kind"] != "verus":
                if h["name"] in isolated_module:
                    weave.sync(scratch)
                    weave.weave(scratch, cfg, cdir, only_modules={isolated_module[h["name"]]})
                info = try_replay(scratch, cfg, cdir, h, fullnames, logf)
                replayed_harnesses[rkey] = info
            elif h.get("replay"):
                kh = next((x for x in cfg.get("harness", []) if x["name"] == h["replay"]), None)
                if kh:
                    kh = dict(kh)
                    fn2 = list_harness_fullnames(scratch, cfg, cdir, None, logf)
                    info = try_replay(scratch, cfg, cdir, kh, fn2, logf)
            contract_text = [f for f in weave_summary.get("functions", [])
                             if h.get("function") and h.get("function").split("::")[-1] == f["function"].split("::")[-1]]
            doc = {"property": prop, "obligation": h["name"], "statement": h.get("obligation", ""),
                   "function": h.get("function", ""), "contract": contract_text,
                   "failed_checks": real[:10], "verifier_output_tail": r.get("_raw_tail", "")[-2500:],
                   "replay": info, "repo_head": git_head(), "tier": tier,
                   "how_to_rerun": f"./check {prop} --replay {rp}"}
            json.dump(doc, open(rp, "w"), indent=1)
            suffix = "" if info.get("replayed_natively") else " no-failing-input-found"
            line = f"VIOLATION property={prop} replay={rp}{suffix}"
            log(line)
            log(f"  obligation {h['name']}: " + "; ".join(f["description"][:160] for f in real[:3]))
            viol_out.append({"obligation": h["name"], "replay": rp,
                             "replayed_natively": info.get("replayed_natively", False)})
        # A listed finding that was demonstrated natively but whose twin obligation is outside the
        # verifier's reach (marked "native_only" in known_findings.json) is still reported on
        # every run: the file, not the verifier, is what makes it a known finding.
        for kf in known["findings"]:
            if kf["property"] == prop and kf.get("native_only"):
                ln = f"KNOWN-FINDING: property={prop} {kf['what']}"
                if ln not in known_lines:
                    known_lines.append(ln + " [shown natively; its obligation is undecided under CBMC]")
        for ln in sorted(set(known_lines)):
            log(ln)
        for u in undecided:
            log(f"UNDECIDED property={prop} obligation={u['obligation']}: {u['reason']}")

        # ---- evidence ----
        for o in obligations:
            o.setdefault("checks", 0)
        proof_obs = [o for o in obligations if o["kind"] in ("contract", "lemma", "verus")]
        bounded_obs = [o for o in obligations if o["kind"] == "bounded"]
        canaries = [o for o in obligations if o["kind"] in ("canary", "verus-canary")]
        kf_obs = [o for o in obligations if o["kind"] == "known_finding"]
        level = cfg.get("level", "proof")
        counted = proof_obs if level == "proof" else bounded_obs + proof_obs
        n_dis = sum(1 for o in counted if o["result"] == "discharged")
        assumptions = list(cfg.get("assumptions", []))
        assumptions += ["mechanical scan: " + a for a in scan_assumptions(cdir, cfg)]
        for s in results.get("_meta", {}).get("stubs", []):
            assumptions.append("Kani applied stub: " + s)
        for vr in verus_results:
            assumptions += vr.get("assumptions", [])
        cov = {
            "obligations": len(counted),
            "discharged": n_dis,
            "checker_cmd": f"./check {prop} --tier {tier}  (cargo kani -p {cfg.get('package')} -Z function-contracts -Z stubbing --harness <each>"
                           + ("; verus <extracted>.rs" if cfg.get("verus") else "") + ")",
            "trusted_base": cfg.get("trusted_base", []) + [
                "Kani 0.68 MIR->GOTO translation, CBMC 6.11, CaDiCaL" if harnesses else "",
                "Verus 0.2026.09.13, Z3" if cfg.get("verus") else "",
                "rustc (verifier toolchains) vs the toolchain that builds wild",
            ],
            "explanation": cfg.get("explanation", ""),
            "samples": [{"obligation": o["obligation"], "function": o["function"],
                         "statement": o["statement"], "result": o["result"],
                         "solver_s": o["solver_s"], "cbmc_checks": o.get("checks")}
                        for o in obligations[:60]],
            "functions_under_contract": weave_summary.get("functions", []),
            "harness_modules": weave_summary.get("modules", []),
            "weave_diff_check": weave_summary.get("diff_check", {}),
            "bounded_obligations": [{"obligation": o["obligation"], "bound": o.get("bound", ""),
                                     "result": o["result"], "statement": o["statement"]}
                                    for o in bounded_obs],
            "vacuity_canaries": [{"obligation": o["obligation"], "result": o["result"]} for o in canaries],
            "known_finding_obligations": [{"obligation": o["obligation"], "result": o["result"]} for o in kf_obs],
            "cbmc_checks_total": sum(o.get("checks") or 0 for o in obligations),
            "solver_seconds_total": round(sum(o.get("solver_s") or 0 for o in obligations), 2),
            "kani_runs": {k: v for k, v in results.get("_meta", {}).items() if k != "stubs"},
            "verus_runs": [{k: v for k, v in vr.items() if k not in ("obligations", "assumptions")}
                           for vr in verus_results],
            "undecided": undecided,
            "violations": viol_out,
            "known_findings_printed": sorted(set(known_lines)),
            "repo_head": git_head(),
            "exhaustive": False,
        }
        cov["trusted_base"] = [t for t in cov["trusted_base"] if t]
        if level != "proof" and not cov["explanation"]:
            cov["explanation"] = "bounded stand-in; see bounded_obligations"
        ev = {"property_id": prop, "tier": tier, "seed": seed, "level": level, "coverage": cov,
              "assumptions": assumptions, "wall_s": round(time.time() - t0, 1),
              "waited_for_solver_slot_s": round(slot.waited, 1),
              "violations": len(viol_out)}
        if not args.no_evidence:
            json.dump(ev, open(os.path.join(EVID, f"{prop}.json"), "w"), indent=1)
        log(f"{prop} [{tier}] obligations={len(counted)} discharged={n_dis} bounded={len(bounded_obs)} "
            f"canaries={len(canaries)} violations={len(viol_out)} undecided={len(undecided)} "
            f"wall={ev['wall_s']}s")
    finally:
        slot.release()
        if not args.keep:
            weave.cleanup(scratch)
        else:
            log(f"scratch kept at {scratch}")
    if viol_out:
        return 1
    if undecided:
        return 2
    return 0


def git_head():
    try:
        return subprocess.run(["git", "-C", weave.REPO, "rev-parse", "--short", "HEAD"],
                              capture_output=True, text=True).stdout.strip()
    except Exception:
        return ""


def do_replay_file(path, cfg, cdir, logf):
    doc = json.load(open(path))
    test = (doc.get("replay") or {}).get("concrete_playback_test")
    if not test:
        log(f"replay file has no concrete test (obligation {doc.get('obligation')}); "
            f"re-run ./check {doc.get('property')} to re-decide the obligation")
        return 2
    prop = doc["property"]
    scratch = weave.make_scratch(prop + "-replay")
    try:
        weave.sync(scratch)
        weave.weave(scratch, cfg, cdir)
        tn = re.search(r"fn (kani_concrete_playback_\w+)", test).group(1)
        hn = re.search(r"concrete_playback_run\(concrete_vals, (\w+)\)", test).group(1)
        target = None
        for mod in cfg.get("module", []):
            name = "__verif_" + re.sub(r"\W", "_", os.path.splitext(os.path.basename(mod["source"]))[0])
            p = os.path.join(scratch, os.path.dirname(mod["file"]), name + ".rs")
            if re.search(r"\bfn\s+" + re.escape(hn) + r"\b", open(p).read()):
                target = p
        with open(target, "a") as f:
            f.write("\n" + test + "\n")
        pkg = cfg["package"]
        cmd = ["cargo", "kani", "playback", "-Z", "concrete-playback", "-p", pkg]
        if cfg.get("features"):
            cmd += ["--features", ",".join(cfg["features"])]
        cmd += ["--", tn]
        rc, dt = sh(cmd, scratch, 1500, logf)
        txt = open(logf, errors="replace").read()
        m = re.search(r"test \S*" + re.escape(tn) + r" \.\.\. (\w+)", txt)
        res = m.group(1) if m else "not-run"
        log(f"replay of {doc['obligation']} on the current tree: native test result = {res}")
        if res == "FAILED":
            log(f"VIOLATION property={prop} replay={path}")
            return 1
        return 0 if res == "ok" else 2
    finally:
        weave.cleanup(scratch)


if __name__ == "__main__":
    sys.exit(main())
