#!/bin/sh
# Run wild's pinned test suite on /repo as it is and compare with the baseline (401 pass, 4 known failures).
cd /repo || exit 2
LOG=${1:-/var/tmp/wild_suite.log}
cargo nextest run --workspace --no-fail-fast --tool-config-file pb:/w/lib/nextest.toml --profile pb --test-threads 8 --offline > "$LOG" 2>&1
grep -E "Summary|^ +FAIL" "$LOG" | sort -u | cut -c1-160
EXPECTED="libwild tidy_tests::check_sources_format
wild-linker::integration_tests elf/x86_64/pack-relative-relocs/z-pack-relative-relocs
wild-linker::integration_tests elf/x86_64/shared/symbolic-non-weak
wild-linker::integration_tests elf/x86_64/tls-apx-relocs/default"
GOT=$(grep -E "^ +FAIL" "$LOG" | sed -E 's/^ +FAIL \[[^]]*\] \([^)]*\) //' | sort -u)
if [ "$GOT" = "$EXPECTED" ] && grep -q "401 passed, 4 failed" "$LOG"; then echo "BASELINE-OK"; exit 0; else echo "BASELINE-DIFFERS"; exit 1; fi
