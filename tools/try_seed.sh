#!/bin/sh
# tools/try_seed.sh <Cnn> <patch.diff> [extra check args]
# Run a check against /repo's HEAD with a seeded change applied - in a scratch COPY of the crates
# the checks read (VERIF_REPO), so /repo itself is never modified and other checks can run at the
# same time.  (Equivalent to: git -C /repo apply <file>; ./check ..; git -C /repo checkout -- .)
P=$1; PATCH=$(readlink -f "$2"); shift 2
COPY=${VERIF_SCRATCH:-/var/tmp}/wild-seedrepo.$$
rm -rf "$COPY"; mkdir -p "$COPY" || exit 2
git -C /repo archive HEAD libwild linker-utils linker-layout linker-trace Cargo.toml Cargo.lock | tar -x -C "$COPY" || { echo "cannot export /repo HEAD"; rm -rf "$COPY"; exit 2; }
( cd "$COPY" && git apply --unsafe-paths "$PATCH" ) || { echo "patch does not apply"; rm -rf "$COPY"; exit 2; }
cd /verif && VERIF_REPO="$COPY" ./check "$P" --no-evidence "$@"; RC=$?
rm -rf "$COPY"
echo "check exit code: $RC"
exit $RC
