#!/bin/sh
# tools/try_seed.sh <Cnn> <patch.diff> [extra check args]: apply a seeded change to /repo, run the check, undo it.
P=$1; PATCH=$(readlink -f "$2"); shift 2
git -C /repo diff --quiet || { echo "/repo has uncommitted changes"; exit 2; }
git -C /repo apply "$PATCH" || { echo "patch does not apply"; exit 2; }
cd /verif && ./check "$P" --no-evidence "$@"; RC=$?
git -C /repo checkout -- .
echo "check exit code: $RC"
exit $RC
