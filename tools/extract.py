"""Route V: mechanical extraction of real items into one verus! file, run on every check.

A recipe (a [[verus]] table of check.toml) names items (fn / impl method / struct / enum / const)
to cut out of the *scratch copy of /repo's working tree* with the lexer-aware scanner, and the
rewrites to apply.  Only these rewrite rules exist (DESIGN.md 1.2); each application is counted in
the evidence and each fails closed (LostAnchor -> exit 2) if its anchor text is not found exactly
`count` times:

  X1 attributes     drop #[inline..], #[must_use], #[derive(..)], #[allow(..)], doc comments (automatic)
  X2 visibility     pub(crate) -> pub (automatic)
  X3 generics       recipe-listed replacement of generic parameter lists / opaque parameter types
  X4 local macro    expand a single-argument macro_rules! defined inside the function (automatic
                    when `expand_local_macro = "<name>"`)
  X5 error macros   bail!(..) -> return Err(verif_error()); crate::error!(..) / error!(..) -> verif_error()
                    (automatic; format arguments dropped)
  X6 opaque expr    recipe-listed verbatim sub-expression -> call of an ensures-free external_body fn
  X7 closure pat    recipe-listed closure parameter pattern rewrite
  X8 closure spec   recipe-listed closure contract splice

plus contract splicing: `requires/ensures/decreases` text inserted between signature and body,
loop invariants inserted after the N-th `while`/`loop`/`for` header of a function.
"""
import json
import os
import re
import subprocess
import sys
import time

HERE = os.path.dirname(os.path.abspath(__file__))
sys.path.insert(0, HERE)
import rustscan  # noqa: E402


def _paren_end(s, i, open_ch="(", close_ch=")"):
    """index just past the paren group starting at s[i] == open_ch (masked text)."""
    depth = 0
    for k in range(i, len(s)):
        if s[k] == open_ch:
            depth += 1
        elif s[k] == close_ch:
            depth -= 1
            if depth == 0:
                return k + 1
    raise rustscan.LostAnchor("unbalanced parens")


def rule_x1_x2(text, counts):
    out = []
    for ln in text.split("\n"):
        s = ln.strip()
        if s.startswith("///") or s.startswith("//!"):
            counts["X1"] = counts.get("X1", 0) + 1
            continue
        if re.match(r"#\[(inline|must_use|allow|derive|debug|cfg_attr|doc|track_caller)\b", s):
            # keep derives Verus understands
            m = re.match(r"#\[derive\(([^)]*)\)\]", s)
            if m:
                ds = [d.strip() for d in m.group(1).split(",")]
                # Clone on a non-Copy (recursive) type is rejected by Verus: keep it only with Copy
                keep = [d for d in ds if d in ("PartialEq", "Eq") or (d in ("Clone", "Copy") and "Copy" in ds)]
                counts["X1"] = counts.get("X1", 0) + 1
                if keep:
                    out.append(ln[:len(ln) - len(ln.lstrip())] + "#[derive(" + ", ".join(keep) + ")]")
                continue
            counts["X1"] = counts.get("X1", 0) + 1
            continue
        out.append(ln)
    text = "\n".join(out)
    n = len(re.findall(r"\bpub\(crate\)", text))
    if n:
        counts["X2"] = counts.get("X2", 0) + n
        text = re.sub(r"\bpub\(crate\)", "pub", text)
    n = len(re.findall(r"\bpub\(super\)", text))
    if n:
        counts["X2"] = counts.get("X2", 0) + n
        text = re.sub(r"\bpub\(super\)", "pub", text)
    return text


def rule_x4(text, macro, counts):
    masked = rustscan.mask(text)
    m = re.search(r"macro_rules!\s*" + re.escape(macro) + r"\s*\{", masked)
    if not m:
        raise rustscan.LostAnchor(f"X4: local macro {macro} not found")
    ob = m.end() - 1
    cb = rustscan.match_brace(masked, ob)
    body = text[ob + 1:cb]
    bm = re.search(r"\(\s*\$(\w+)\s*:\s*expr\s*\)\s*=>\s*\{(.*)\}\s*;?\s*$", body, re.S)
    if not bm:
        raise rustscan.LostAnchor(f"X4: macro {macro} is not a single-expression macro")
    param, template = bm.group(1), bm.group(2).strip()
    text = text[:m.start()] + text[cb + 1:]
    # expand call sites, innermost first by repeating until none left
    n = 0
    while True:
        masked = rustscan.mask(text)
        cm = None
        for cand in re.finditer(r"\b" + re.escape(macro) + r"!\(", masked):
            cm = cand  # last one = innermost-or-later; any order terminates
        if not cm:
            break
        start = cm.start()
        end = _paren_end(masked, cm.end() - 1)
        arg = text[cm.end():end - 1]
        text = text[:start] + template.replace("$" + param, arg) + text[end:]
        n += 1
        if n > 500:
            raise rustscan.LostAnchor("X4: runaway expansion")
    counts["X4"] = counts.get("X4", 0) + n
    return text


def rule_x5(text, counts):
    for pat, repl in ((r"\bbail!\(", "return Err(verif_error())"),
                      (r"\b(?:crate::)?error!\(", "verif_error()")):
        while True:
            masked = rustscan.mask(text)
            m = re.search(pat, masked)
            if not m:
                break
            end = _paren_end(masked, m.end() - 1)
            text = text[:m.start()] + repl + text[end:]
            counts["X5"] = counts.get("X5", 0) + 1
    return text


def apply_rewrites(text, rewrites, counts, applied):
    for rw in rewrites:
        find, repl = rw["find"], rw["replace"]
        got = text.count(find)
        want = got if (rw.get("count") == "any" and got >= 1) else int(rw.get("count", 1) if rw.get("count") != "any" else 1)
        if got != want:
            raise rustscan.LostAnchor(
                f"{rw['rule']}: anchor occurs {got}x, expected {want}x: {find[:70]!r}")
        text = text.replace(find, repl)
        counts[rw["rule"]] = counts.get(rw["rule"], 0) + got
        applied.append({"rule": rw["rule"], "find": find[:200], "replace": repl[:200], "count": got})
    return text


def splice_contract(text, clauses):
    """insert `clauses` between the fn signature and its body."""
    masked = rustscan.mask(text)
    m = re.search(r"\bfn\s+\w+", masked)
    k = m.end()
    par = 0
    while k < len(masked):
        ch = masked[k]
        if ch in "([":
            par += 1
        elif ch in ")]":
            par -= 1
        elif ch == "{" and par == 0:
            break
        k += 1
    return text[:k].rstrip() + "\n" + clauses.rstrip() + "\n" + text[k:]


def splice_loop_invariants(text, invariants):
    """invariants: list of {ordinal, text}; inserted after the loop header, before its `{`."""
    for inv in sorted(invariants, key=lambda i: -int(i["ordinal"])):
        masked = rustscan.mask(text)
        loops = list(re.finditer(r"\b(while|for|loop)\b", masked))
        # skip `for` inside generic bounds: keep those followed by a body brace at depth 0
        idx = int(inv["ordinal"])
        if idx >= len(loops):
            raise rustscan.LostAnchor(f"loop ordinal {idx} not found")
        k = loops[idx].end()
        par = 0
        while k < len(masked):
            ch = masked[k]
            if ch in "([":
                par += 1
            elif ch in ")]":
                par -= 1
            elif ch == "{" and par == 0:
                break
            k += 1
        text = text[:k].rstrip() + "\n" + inv["text"].rstrip() + "\n" + text[k:]
    return text


def extract_item(scratch, item, counts, applied):
    path = os.path.join(scratch, item["file"])
    if not os.path.exists(path):
        raise rustscan.LostAnchor(f"file missing: {item['file']}")
    src = open(path).read()
    # drop the lines weave inserted (contracts for Kani) so Verus sees the repository text
    src = "\n".join(ln for ln in src.split("\n") if not ln.rstrip().endswith("// __verif_inserted__"))
    masked = rustscan.mask(src)
    kind = item["kind"]
    if kind == "fn":
        loc = rustscan.find_fn(src, item.get("impl", ""), item["name"], masked)
        text = src[loc["item_start"]:loc["end"]]
        line = src.count("\n", 0, loc["fn_kw"]) + 1
    elif kind == "stmts":
        # Rule X10: a run of `count` consecutive statements inside a function body, located by an
        # anchor text that must occur exactly once in the file (comments / strings masked), cut at
        # statement boundaries found by bracket matching, and wrapped between the recipe's
        # `wrap_head` and `wrap_tail` so that it becomes a function of its free variables.
        anchors = item["anchor"] if isinstance(item["anchor"], list) else [item["anchor"]]
        a = -1
        for anc in anchors:  # the first listed anchor that occurs exactly once
            a = masked.find(anc)
            if a >= 0 and masked.find(anc, a + 1) < 0:
                break
            a = -1
        if a < 0:
            raise rustscan.LostAnchor(f"X10: no statement anchor found exactly once: {anchors!r}")
        start = src.rfind("\n", 0, a) + 1
        pos = a
        nstmts = 0
        while True:
            if item.get("until"):
                if item["until"] in masked[a:pos]:
                    break
                if nstmts >= 8:
                    raise rustscan.LostAnchor(f"X10: `until` anchor not reached within 8 statements: {item['until']!r}")
            elif nstmts >= int(item.get("count", 1)):
                break
            nstmts += 1
            while pos < len(src) and masked[pos].isspace():
                pos += 1
            head = masked[pos:pos + 8]
            block_stmt = re.match(r"(if|for|while|match|loop)\b", head) is not None
            depth = 0
            while pos < len(src):
                ch = masked[pos]
                if ch in "([{":
                    depth += 1
                elif ch in ")]}":
                    depth -= 1
                    if depth < 0:
                        raise rustscan.LostAnchor("X10: statement runs past its enclosing block")
                    if depth == 0 and ch == "}" and block_stmt:
                        rest = masked[pos + 1:pos + 40].lstrip()
                        if not rest.startswith("else"):
                            pos += 1
                            break
                elif ch == ";" and depth == 0:
                    pos += 1
                    break
                pos += 1
            else:
                raise rustscan.LostAnchor("X10: statement end not found")
        body = src[start:pos]
        fnm = None
        for m in re.finditer(r"\bfn\s+(\w+)", masked[:a]):
            fnm = m.group(1)
        item = dict(item)
        item["name"] = f"{item['name']} (statements of fn {fnm})"
        text = body
        line = src.count("\n", 0, a) + 1
        counts["X10"] = counts.get("X10", 0) + 1
        applied.append({"rule": "X10", "find": src[a:a + 60], "replace": "(wrapped) " + item["wrap_head"][:120],
                        "count": nstmts})
    else:
        loc = rustscan.find_type_item(src, kind, item["name"], masked)
        text = src[loc["item_start"]:loc["end"]]
        line = src.count("\n", 0, loc["start"]) + 1
    original = text
    text = rule_x1_x2(text, counts)
    # recipe rewrites are anchored on the repository's text (after X1/X2 only)
    text = apply_rewrites(text, item.get("rewrites", []), counts, applied)
    if item.get("expand_local_macro"):
        text = rule_x4(text, item["expand_local_macro"], counts)
    if item.get("x5", True):
        text = rule_x5(text, counts)
    if item.get("contract"):
        text = splice_contract(text, item["contract"])
    if item.get("loop_invariants"):
        text = splice_loop_invariants(text, item["loop_invariants"])
    if item.get("wrap_impl"):
        text = item["wrap_impl"] + " {\n" + text + "\n}\n"
    if kind == "stmts":
        text = item["wrap_head"] + "\n" + text + "\n" + item["wrap_tail"] + "\n"
    return text, {"item": f"{kind} {item.get('impl', '')}::{item['name']}".replace(" ::", " "),
                  "where": f"{item['file']}:{line}", "original_lines": original.count("\n") + 1}


def run_recipe(recipe, cdir, scratch, logf):
    """Returns dict(obligations=[...], assumptions=[...], ...)."""
    t0 = time.time()
    counts, applied, items_meta = {}, [], []
    out = {"recipe": recipe["name"], "obligations": [], "assumptions": []}
    try:
        parts = []
        for item in recipe.get("item", []):
            text, meta = extract_item(scratch, item, counts, applied)
            parts.append(f"// ---- extracted: {meta['item']} from {meta['where']} ----\n" + text)
            items_meta.append(meta)
    except rustscan.LostAnchor as e:
        out["obligations"].append({"obligation": f"verus:{recipe['name']}", "kind": "verus",
                                   "function": recipe["name"], "statement": "extraction",
                                   "backend": "Verus", "solver_s": None, "result": "undecided",
                                   "reason": f"lost anchor: {e}"})
        return out
    prelude = open(os.path.join(cdir, recipe["prelude"])).read()
    epilogue = open(os.path.join(cdir, recipe["epilogue"])).read() if recipe.get("epilogue") else ""
    body = "\n\n".join(parts)
    src = ("// GENERATED on every run by tools/extract.py from /repo's working tree. Do not edit.\n"
           "use vstd::prelude::*;\n\nverus! {\n\n" + prelude + "\n\n" + body + "\n\n" + epilogue +
           "\n\n} // verus!\n\nfn main() {}\n")
    vdir = os.path.join(scratch, "__verus")
    os.makedirs(vdir, exist_ok=True)
    vfile = os.path.join(vdir, recipe["name"] + ".rs")
    open(vfile, "w").write(src)
    # keep a copy for inspection next to the evidence
    keep = os.path.join(os.path.dirname(logf), f"verus-{recipe['name']}.rs")
    open(keep, "w").write(src)
    cmd = ["verus", vfile, "--output-json", "--time", "--multiple-errors", "50", "--rlimit", str(recipe.get("rlimit", 50))]
    env = dict(os.environ)
    with open(logf, "ab") as f:
        f.write(("\n$ " + " ".join(cmd) + "\n").encode())
    try:
        p = subprocess.run(cmd, capture_output=True, text=True, timeout=int(recipe.get("timeout", 600)),
                           env=env, cwd=vdir)
        stdout, stderr, rc = p.stdout, p.stderr, p.returncode
    except subprocess.TimeoutExpired:
        stdout, stderr, rc = "", "timeout", 124
    with open(logf, "a") as f:
        f.write(stdout[-20000:] + "\n" + stderr[-20000:] + "\n")
    res = {}
    try:
        js = json.loads(stdout[stdout.index("{"):])
        res = js.get("verification-results", {})
        times = js.get("times-ms", {})
    except Exception:
        js, times = {}, {}
    out.update({"verus_rc": rc, "verified": res.get("verified"), "errors": res.get("errors"),
                "success": res.get("success"), "rewrite_rule_counts": counts,
                "rewrites_applied": applied, "items": items_meta,
                "verus_total_ms": (times.get("total") if isinstance(times, dict) else None),
                "smt_ms": (times.get("smt", {}).get("total") if isinstance(times, dict) and isinstance(times.get("smt"), dict) else None),
                "generated_file": os.path.relpath(keep, os.path.dirname(os.path.dirname(logf))),
                "wall_s": round(time.time() - t0, 1)})
    # map errors to functions by line
    lines = src.split("\n")
    fn_at = {}
    cur = None
    for i, ln in enumerate(lines, 1):
        m = re.match(r"\s*(?:pub\s+)?(?:open\s+|closed\s+)?(?:proof\s+|spec\s+|exec\s+)?fn\s+(\w+)", ln)
        if m:
            cur = m.group(1)
        fn_at[i] = cur
    failed = {}
    hard_error = None
    for m in re.finditer(r"error(?:\[E\d+\])?: ([^\n]*)\n\s*--> [^\n:]*:(\d+):(\d+)", stderr):
        msg, line = m.group(1), int(m.group(2))
        fn = fn_at.get(line)
        failed.setdefault(fn, []).append(f"line {line}: {msg}: {lines[line - 1].strip()[:160]}")
    if res.get("verified") is None:
        # verus stopped before verification (parse/type/mode error, unsupported construct)
        hard_error = stderr[-1500:] or "no verification results"
    declared = recipe.get("obligation", [])
    for ob in declared:
        name = ob["fn"]
        kind = "verus-canary" if ob.get("canary") else "verus"
        ent = {"obligation": f"verus:{recipe['name']}:{name}", "kind": kind, "function": ob.get("function", name),
               "statement": ob.get("statement", ""), "backend": "Verus 0.2026.09.13 / Z3",
               "solver_s": None, "checks": None, "replay": ob.get("replay"),
               "where": next((m_["where"] for m_ in items_meta if m_["item"].endswith("::" + name) or m_["item"].endswith(" " + name)), "")}
        if hard_error is not None:
            ent["result"] = "undecided"
            ent["reason"] = "verus did not produce results (unsupported construct / parse error): " + hard_error[-400:]
        elif ob.get("canary"):
            if name in failed:
                ent["result"] = "canary-failed-as-required"
            else:
                ent["result"] = "VACUOUS"
        elif name in failed:
            msgs = failed[name]
            if all(re.search(r"rlimit|resource limit|timed out|not supported|unsupported", x, re.I) for x in msgs):
                ent["result"] = "undecided"
                ent["reason"] = "; ".join(msgs)[:400]
            else:
                ent["result"] = "VIOLATION"
                ent["verifier_output"] = "\n".join(msgs)[:2000]
        else:
            ent["result"] = "discharged"
        out["obligations"].append(ent)
    # errors in functions that are not declared obligations (e.g. type errors in prelude) => undecided
    stray = [k for k in failed if k not in {o["fn"] for o in declared}]
    if stray and hard_error is None:
        out["obligations"].append({"obligation": f"verus:{recipe['name']}:<undeclared>", "kind": "verus",
                                   "function": ",".join(str(s) for s in stray), "statement": "",
                                   "backend": "Verus", "solver_s": None, "result": "undecided",
                                   "reason": "verus reported errors outside declared obligations: " +
                                             "; ".join(failed[stray[0]])[:300]})
    # vacuity: number verified must be >= number of non-canary obligations
    for a in re.finditer(r"(external_body|assume_specification|admit\(\)|assume\()", prelude + epilogue):
        pass
    for i, ln in enumerate((prelude + "\n" + epilogue).split("\n"), 1):
        if re.search(r"external_body|assume_specification|\badmit\s*\(|\bassume\s*\(", ln) and not ln.strip().startswith("//"):
            out["assumptions"].append(f"verus prelude/epilogue of {recipe['name']}: {ln.strip()[:160]}")
    return out


# --------------------------------------------------------------------------------------------
# Route S: the same mechanical extraction compiled as a standalone plain-Rust file for Kani
# (used where the real crate is out of CBMC's reach: e.g. evaluate_expression::<Elf> drags in the
# whole OutputSections/hashbrown/dyn-callback machinery and exhausts 60 GB).
# --------------------------------------------------------------------------------------------

def run_standalone(recipe, cfg, cdir, scratch, logf, parse_result_file, classify_failed, tier):
    t0 = time.time()
    counts, applied, items_meta = {}, [], []
    out = {"recipe": recipe["name"], "obligations": [], "assumptions": [], "route": "S"}
    items = list(recipe.get("item", []))
    if recipe.get("items_from"):
        src_recipe = next(r for r in cfg.get("verus", []) if r["name"] == recipe["items_from"])
        skip = set(recipe.get("skip_rules", ["X9", "G", "C"]))
        for it in src_recipe.get("item", []):
            it2 = {k: v for k, v in it.items() if k not in ("contract", "loop_invariants")}
            it2["rewrites"] = [rw for rw in it.get("rewrites", []) if rw["rule"] not in skip]
            items.append(it2)
    def _in_tier(h):
        t = h.get("tier", "quick")
        if tier == "experimental":
            return True
        if t == "experimental":
            return False
        return tier == "thorough" or t == "quick"
    harnesses = [h for h in recipe.get("harness", []) if _in_tier(h)]
    _only = os.environ.get("VERIF_ONLY_STANDALONE")
    if _only:  # debugging aid, mirrors --only of run_check for woven harnesses
        harnesses = [h for h in harnesses if h["name"] in set(_only.split(","))]

    def undecided_all(reason):
        for h in harnesses:
            out["obligations"].append({"obligation": h["name"], "kind": h["kind"], "function": h.get("function", ""),
                                       "statement": h.get("obligation", ""), "backend": "Kani (standalone extraction)",
                                       "solver_s": None, "checks": 0, "result": "undecided", "reason": reason})
        return out
    try:
        parts = []
        for item in items:
            if item.get("optional"):
                # an item that exists only in some versions of the code (e.g. a helper a fix
                # introduced): absent -> skipped and recorded, present -> extracted as usual
                try:
                    text, meta = extract_item(scratch, item, counts, applied)
                except rustscan.LostAnchor:
                    applied.append({"rule": "optional-item-absent", "find": item["name"], "replace": "", "count": 0})
                    continue
                parts.append(f"// ---- extracted: {meta['item']} from {meta['where']} ----\n" + text)
                items_meta.append(meta)
                continue
            text, meta = extract_item(scratch, item, counts, applied)
            parts.append(f"// ---- extracted: {meta['item']} from {meta['where']} ----\n" + text)
            items_meta.append(meta)
    except rustscan.LostAnchor as e:
        return undecided_all(f"lost anchor: {e}")
    prelude = open(os.path.join(cdir, recipe["prelude"])).read()
    hsrc = open(os.path.join(cdir, recipe["harness_file"])).read()
    src = ("// GENERATED on every run by tools/extract.py (Route S) from /repo's working tree.\n"
           "#![allow(unused, dead_code, clippy::all)]\n" + prelude + "\n\n" + "\n\n".join(parts) + "\n\n" + hsrc +
           "\n\nfn main() {}\n")
    sdir = os.path.join(scratch, "__standalone_" + recipe["name"])
    os.makedirs(sdir, exist_ok=True)
    sfile = os.path.join(sdir, recipe["name"] + ".rs")
    open(sfile, "w").write(src)
    keep = os.path.join(os.path.dirname(logf), f"standalone-{recipe['name']}.rs")
    open(keep, "w").write(src)
    cmd = ["kani", sfile, "-Z", "function-contracts", "-Z", "stubbing", "-Z", "unstable-options",
           "-j", str(recipe.get("jobs", 6)), "--output-format", "terse", "--output-into-files",
           "--harness-timeout", f"{int(recipe.get('harness_timeout', 600))}s"]
    for h in harnesses:
        cmd += ["--harness", h["name"]]
    with open(logf, "ab") as f:
        f.write(("\n$ " + " ".join(cmd) + "\n").encode())
        f.flush()
        try:
            p = subprocess.run(cmd, cwd=sdir, stdout=f, stderr=subprocess.STDOUT,
                               timeout=int(recipe.get("timeout", 1800)))
            rc = p.returncode
        except subprocess.TimeoutExpired:
            rc = 124
    rdir = os.path.join(sdir, "result_output_dir")
    if not os.path.isdir(rdir):
        return undecided_all("standalone extraction did not compile under Kani (see log) or timed out")
    for h in harnesses:
        ent = {"obligation": h["name"], "kind": h["kind"], "function": h.get("function", ""),
               "statement": h.get("obligation", ""), "backend": "Kani 0.68 / CBMC on the standalone extraction",
               "solver_s": None, "checks": 0, "result": "undecided"}
        if h.get("bound"):
            ent["bound"] = h["bound"]
        p = os.path.join(rdir, h["name"])
        if not os.path.exists(p):
            cands = [x for x in os.listdir(rdir) if x.endswith("::" + h["name"]) or x == h["name"]]
            p = os.path.join(rdir, cands[0]) if cands else p
        if os.path.exists(p):
            r, txt = parse_result_file(p)
            ent["solver_s"], ent["checks"] = r.get("time_s"), r.get("checks", 0)
            st = r["status"]
            if h["kind"] == "canary":
                if st == "FAILED" and classify_failed(r["failed"])[0] == "violation":
                    ent["result"] = "canary-failed-as-required"
                elif st == "SUCCESSFUL":
                    ent["result"] = "VACUOUS"
            elif st == "SUCCESSFUL":
                ent["result"] = "discharged"
            elif st == "FAILED":
                cls, real = classify_failed(r["failed"])
                if cls == "violation":
                    ent["result"] = "VIOLATION"
                    ent["failed_checks"] = [{"description": f["description"][:300], "location": f["location"]} for f in real[:6]]
                    ent["verifier_output"] = txt[-2500:]
                else:
                    ent["reason"] = "; ".join(f["description"][:100] for f in r["failed"][:3])
            else:
                ent["reason"] = f"status {st}"
        else:
            ent["reason"] = "no result file"
        out["obligations"].append(ent)
    out.update({"rewrite_rule_counts": counts, "rewrites_applied": applied, "items": items_meta,
                "generated_file": os.path.relpath(keep, os.path.dirname(os.path.dirname(logf))),
                "wall_s": round(time.time() - t0, 1)})
    for i, ln in enumerate((prelude + "\n" + hsrc).split("\n"), 1):
        if re.search(r"kani::assume\s*\(|kani::stub\s*\(|kani::any\(\)\s*//\s*opaque", ln) and not ln.strip().startswith("//"):
            out["assumptions"].append(f"standalone prelude/harness of {recipe['name']}: {ln.strip()[:160]}")
    return out
