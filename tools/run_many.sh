#!/bin/sh
# tools/run_many.sh [-P n] <Cnn[:tier]>...: run several checks (n at a time, default 2) against
# /repo, evidence written as usual; one summary line per check in /var/tmp/run-many.log.
cd /verif || exit 2
P=2
if [ "$1" = "-P" ]; then P=$2; shift 2; fi
if [ "$1" = "--one" ]; then
  spec=$2; prop=${spec%%:*}; tier=quick; case "$spec" in *:*) tier=${spec##*:};; esac
  ./check "$prop" --tier "$tier" > /var/tmp/run-$prop-$tier.out 2>&1; rc=$?
  { echo "=== $prop $tier rc=$rc $(date +%T)"; grep -E "^VIOLATION|^UNDECIDED|\[$tier\]" /var/tmp/run-$prop-$tier.out | cut -c1-260; } >> /var/tmp/run-many.log
  exit 0
fi
printf "%s\n" "$@" | xargs -P "$P" -I{} sh tools/run_many.sh --one {}
echo MANYDONE >> /var/tmp/run-many.log
