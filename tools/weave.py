"""Route K: copy the real crates from /repo's working tree into a scratch workspace and weave the
sidecar contracts in.  Only *insertions* are made:

  (a) the root Cargo.toml is rewritten to list the trimmed member set (everything else verbatim),
  (b) contract attribute lines are inserted immediately above a function's `fn` line,
  (c) one `#[cfg(kani)] #[path = "__verif_<x>.rs"] mod __verif_<x>;` line is appended to a file,
  (c') `cargo_dep` lines (a dependency edge on a crate already in Cargo.lock) after [dependencies],
  (d) harness module files `__verif_*.rs` (copied from /verif/contracts/<id>/) and
      `.cargo/config.toml` are added.

verify_weave() re-derives the original text of every woven file by deleting exactly the inserted
lines and compares with /repo byte for byte; any other difference fails closed.
"""
import os
import re
import shutil
import subprocess
import sys

sys.path.insert(0, os.path.dirname(os.path.abspath(__file__)))
import rustscan  # noqa: E402

REPO = os.environ.get("VERIF_REPO", "/repo")
VERIF = os.path.dirname(os.path.dirname(os.path.abspath(__file__)))
CRATES = ["libwild", "linker-utils", "linker-layout", "linker-trace"]
MARK = "// __verif_inserted__"
TOML_MARK = "# __verif_inserted__"


class WeaveError(Exception):
    pass


def scratch_root():
    base = os.environ.get("VERIF_SCRATCH", "/var/tmp")
    return base


def make_scratch(tag):
    d = os.path.join(scratch_root(), f"wild-verif.{tag}.{os.getpid()}")
    if os.path.exists(d):
        shutil.rmtree(d)
    os.makedirs(d)
    return d


def sync(scratch, crates=CRATES):
    for c in crates:
        src = os.path.join(REPO, c)
        if not os.path.isdir(src):
            raise WeaveError(f"crate dir missing: {src}")
        subprocess.run(["rsync", "-a", "--delete", "--exclude", "target", src + "/",
                        os.path.join(scratch, c) + "/"], check=True)
    shutil.copy(os.path.join(REPO, "Cargo.lock"), os.path.join(scratch, "Cargo.lock"))
    root = open(os.path.join(REPO, "Cargo.toml")).read()
    m = re.search(r"(?s)\[workspace\]\s*\nmembers\s*=\s*\[.*?\]\n", root)
    if not m:
        raise WeaveError("cannot find [workspace] members in root Cargo.toml")
    members = "[workspace]\nmembers = [\n" + "".join(f'    "{c}",\n' for c in crates) + "]\n"
    new_root = root[:m.start()] + members + root[m.end():]
    open(os.path.join(scratch, "Cargo.toml"), "w").write(new_root)
    os.makedirs(os.path.join(scratch, ".cargo"), exist_ok=True)
    open(os.path.join(scratch, ".cargo", "config.toml"), "w").write("[net]\noffline = true\n")
    if os.path.exists(os.path.join(REPO, "rust-toolchain.toml")):
        pass  # Kani uses its own pinned toolchain; the repo's toolchain file is not copied


def weave(scratch, cfg, contracts_dir, only_modules=None):
    """Apply cfg['weave'] and cfg['module'] entries. Returns a summary dict.

    only_modules: optional set of module source basenames (without .rs); when given, only those
    harness modules (plus modules marked `shared = true`) are woven -- used to isolate a harness
    module that no longer compiles against the working tree from the ones that still do."""
    inserted = {}  # file -> list of inserted line texts
    by_file = {}
    for w in cfg.get("weave", []):
        by_file.setdefault(w["file"], []).append(w)
    summary = {"functions": [], "modules": [], "inserted_lines": 0}
    for rel, entries in by_file.items():
        path = os.path.join(scratch, rel)
        if not os.path.exists(path):
            raise rustscan.LostAnchor(f"file missing: {rel}")
        text = open(path).read()
        masked = rustscan.mask(text)
        points = []
        for w in entries:
            loc = rustscan.find_fn(text, w.get("impl", ""), w["fn"], masked)
            lines = w["attrs"]
            indent = re.match(r"[ \t]*", text[loc["start"]:]).group(0)
            block = "".join(f"{indent}{ln} {MARK}\n" for ln in lines)
            points.append((loc["start"], block))
            line_no = text.count("\n", 0, loc["fn_kw"]) + 1
            summary["functions"].append(
                {"function": (w.get("impl", "") + "::" if w.get("impl") else "") + w["fn"],
                 "where": f"{rel}:{line_no}", "contract": lines})
            summary["inserted_lines"] += len(lines)
        for pos, block in sorted(points, reverse=True):
            text = text[:pos] + block + text[pos:]
        open(path, "w").write(text)
    for mod in cfg.get("module", []):
        base = os.path.splitext(os.path.basename(mod["source"]))[0]
        if only_modules is not None and base not in only_modules and not mod.get("shared"):
            continue
        rel = mod["file"]
        path = os.path.join(scratch, rel)
        if not os.path.exists(path):
            raise rustscan.LostAnchor(f"file missing: {rel}")
        src = os.path.join(contracts_dir, mod["source"])
        name = "__verif_" + re.sub(r"\W", "_", os.path.splitext(os.path.basename(mod["source"]))[0])
        # lib.rs / mod.rs / main.rs resolve child modules next to themselves; other files resolve
        # #[path] relative to their own directory as well.
        dst = os.path.join(os.path.dirname(path), name + ".rs")
        shutil.copy(src, dst)
        for extra in mod.get("include", []):
            shutil.copy(os.path.join(contracts_dir, extra),
                        os.path.join(os.path.dirname(path), "__verif_" + os.path.basename(extra)))
        text = open(path).read()
        if not text.endswith("\n"):
            text += "\n"
        text += f'#[cfg(kani)] #[path = "{name}.rs"] pub(crate) mod {name}; {MARK}\n'
        open(path, "w").write(text)
        summary["modules"].append({"file": rel, "module": name, "source": mod["source"]})
        summary["inserted_lines"] += 1
    for dep in cfg.get("cargo_dep", []):
        # a dependency edge the harness needs to NAME a type of a crate that is already in
        # Cargo.lock (e.g. hashbrown's allocator trait); inserted right after [dependencies].
        path = os.path.join(scratch, dep["file"])
        text = open(path).read()
        m = re.search(r"(?m)^\[dependencies\]\n", text)
        if not m:
            raise rustscan.LostAnchor(f"no [dependencies] in {dep['file']}")
        text = text[:m.end()] + f"{dep['line']} {TOML_MARK}\n" + text[m.end():]
        open(path, "w").write(text)
        summary["inserted_lines"] += 1
    for rel, lines in cfg.get("crate_attrs", {}).items():
        # inner attributes needed by Kani features (e.g. loop contracts); inserted at the top.
        path = os.path.join(scratch, rel)
        text = open(path).read()
        block = "".join(f"{ln} {MARK}\n" for ln in lines)
        open(path, "w").write(block + text)
        summary["inserted_lines"] += len(lines)
    return summary


def verify_weave(scratch, crates=CRATES):
    """Fail closed unless scratch == /repo modulo inserted lines and added __verif_ files."""
    report = {"files_compared": 0, "files_with_insertions": 0, "added_files": []}
    for c in crates:
        for dirpath, dirnames, filenames in os.walk(os.path.join(scratch, c)):
            dirnames[:] = [d for d in dirnames if d != "target"]
            for fn in filenames:
                p = os.path.join(dirpath, fn)
                rel = os.path.relpath(p, scratch)
                orig = os.path.join(REPO, rel)
                if fn.startswith("__verif_"):
                    report["added_files"].append(rel)
                    continue
                if not os.path.exists(orig):
                    raise WeaveError(f"unexpected file in scratch: {rel}")
                a = open(p, "rb").read()
                b = open(orig, "rb").read()
                report["files_compared"] += 1
                if a == b:
                    continue
                kept = [ln for ln in a.split(b"\n")
                        if not ln.endswith(MARK.encode()) and not ln.endswith(TOML_MARK.encode())]
                if b"\n".join(kept) != b and b"\n".join(kept) != b + b"\n":
                    raise WeaveError(f"woven file differs from /repo beyond inserted lines: {rel}")
                report["files_with_insertions"] += 1
    return report


def cleanup(scratch):
    shutil.rmtree(scratch, ignore_errors=True)
