#!/bin/sh
# tools/confirm_seed.sh <worktree> <file-to-append-demo-to> <cargo-test-args...>
# Confirms a seeded change in its own worktree: (1) suite with the patch == baseline, (2) demo fails
# with the patch, (3) demo passes without it.  Leaves the worktree with the patch applied.
WT=$1; TARGET=$2; shift 2
cd "$WT" || exit 2
git diff > /tmp/confirm.$$.diff
cmp -s /tmp/confirm.$$.diff patch.diff || echo "NOTE: working tree diff differs from patch.diff"
echo "== suite with patch"
cargo nextest run --workspace --no-fail-fast --tool-config-file pb:/w/lib/nextest.toml --profile pb --test-threads 8 --offline > /tmp/confirm.$$.log 2>&1
grep -E "Summary" /tmp/confirm.$$.log
grep -E "^ +FAIL" /tmp/confirm.$$.log | sed -E 's/^ +FAIL \[[^]]*\] \([^)]*\) //' | sort -u
cp "$TARGET" /tmp/confirm.$$.orig
cat demo_test.rs >> "$TARGET"
echo "== demo WITH patch (expect failure)"
cargo test --offline "$@" 2>&1 | grep -E "^test |test result|panicked" | head -12
git checkout -- . 
cat demo_test.rs >> "$TARGET"
echo "== demo WITHOUT patch (expect pass)"
cargo test --offline "$@" 2>&1 | grep -E "^test |test result|panicked" | head -12
git checkout -- .
git apply patch.diff
echo "== restored: $(git status --short | tr '\n' ' ')"
